//! idm_lock — C28 (failed credentials are rate limited) and C31 (weak or badlisted passwords can
//! never be set). Single node, real `IdmServer` driven through its public entry points.
//!
//! C28: streams of right/wrong attempts and pure time advances on a nanosecond clock that sits on
//! a coarse grid (0 / 1 ns / 1 s / TOTP-step boundary / UTC-day boundary), against password-only
//! and password+TOTP accounts through `auth` (init/begin/cred as separately scheduled steps),
//! `auth_unix`, `auth_ldap`, `reauth_init`, with administrator soft-lock expiry edits; a second
//! run mode drives the bare `CredSoftLock` state machine (hook wrapper) with the same vocabulary
//! and much longer streams.
//!
//! C31: account-policy minimum lengths on (nested) groups, system badlist edits, restarts of a
//! file-backed node, interleaved with every password setting path.
use crate::driver::{Budget, Outcome, Plan, Scenario, Tier};
use crate::entropy;
use crate::node::{block, boot_idm, boot_qs, poll_now, Idm, NodeCfg, Scratch};
use crate::rng::{fnv64, uuid_for, Rng};
use compact_jwt::JwsCompact;
use kanidm_lib_crypto::CryptoPolicy;
use kanidm_proto::v1::{AuthIssueSession, AuthMech};
use kanidmd_lib::credential::softlock::CredSoftLockPolicy;
use kanidmd_lib::credential::totp::Totp;
use kanidmd_lib::credential::Credential;
use kanidmd_lib::entry::{Entry, EntryInit, EntryNew};
use kanidmd_lib::idm::authentication::{AuthCredential, AuthState, ReauthRequest};
use kanidmd_lib::idm::credupdatesession::{
    CredentialUpdateSessionToken, InitCredentialUpdateEvent, MfaRegStateStatus,
};
use kanidmd_lib::idm::delayed::DelayedAction;
use kanidmd_lib::idm::event::{
    AuthEvent, AuthEventStep, AuthEventStepCred, AuthEventStepInit, AuthEventStepMech, LdapAuthEvent,
    UnixPasswordChangeEvent, UnixUserAuthEvent,
};
use kanidmd_lib::idm::server::IdmServerTransaction;
use kanidmd_lib::prelude::*;
use kanidmd_lib::value::CredentialType;
use kanidmd_lib::verif_hooks as hooks;
use serde_json::{json, Value as J};
use std::collections::{BTreeMap, BTreeSet};
use std::time::Duration;
use time::OffsetDateTime;

const K: u64 = 0x9E37_79B9_7F4A_7C15;
const NS: u64 = 1_000_000_000;
const DAY: u64 = 86_400;
const BASE_S: u64 = crate::cluster::BASE_EPOCH;
const LOCKED_MSG: &str = "Account is temporarily locked";
const LOCKED_MSG_REAUTH: &str = "Credential is temporarily locked";

fn dur(ns: u64) -> Duration {
    Duration::new(ns / NS, (ns % NS) as u32)
}
fn ju(ev: &J, k: &str) -> u64 {
    ev.get(k).and_then(|x| x.as_u64()).unwrap_or(0)
}
fn js<'a>(ev: &'a J, k: &str) -> &'a str {
    ev.get(k).and_then(|x| x.as_str()).unwrap_or("")
}
fn jb(ev: &J, k: &str) -> bool {
    ev.get(k).and_then(|x| x.as_bool()).unwrap_or(false)
}
fn herr<T: std::fmt::Debug>(what: &str, e: T) -> String {
    format!("{what}: {e:?}")
}

const ALNUM: &[u8] = b"abcdefghijkmnopqrstuvwxyzABCDEFGHJKLMNPQRSTUVWXYZ23456789";
fn strong(r: &mut Rng, n: usize) -> String {
    (0..n).map(|_| ALNUM[r.below(ALNUM.len() as u64) as usize] as char).collect()
}

fn person(u: Uuid, name: &str, posix: Option<u32>) -> Entry<EntryInit, EntryNew> {
    let mut e = entry_init!(
        (Attribute::Class, EntryClass::Object.to_value()),
        (Attribute::Class, EntryClass::Account.to_value()),
        (Attribute::Class, EntryClass::Person.to_value()),
        (Attribute::Name, Value::new_iname(name)),
        (Attribute::Uuid, Value::Uuid(u)),
        (Attribute::Description, Value::new_utf8s(name)),
        (Attribute::DisplayName, Value::new_utf8s(name))
    );
    if let Some(gid) = posix {
        e.add_ava(Attribute::Class, EntryClass::PosixAccount.to_value());
        e.add_ava(Attribute::GidNumber, Value::new_uint32(gid));
    }
    e
}

fn group(u: Uuid, name: &str) -> Entry<EntryInit, EntryNew> {
    entry_init!(
        (Attribute::Class, EntryClass::Object.to_value()),
        (Attribute::Class, EntryClass::Group.to_value()),
        (Attribute::Name, Value::new_iname(name)),
        (Attribute::Uuid, Value::Uuid(u))
    )
}

// ================================================================================================
// Soft-lock announcements (Debug rendering of CredSoftLock) and the C28 oracle
// ================================================================================================

#[derive(Clone, Debug, PartialEq, Eq)]
enum Lk {
    Init,
    Locked { count: u64, reset: u64, unlock: u64 },
    Unlocked { count: u64, reset: u64 },
}

/// `Duration` Debug → nanoseconds ("1750000001s", "1750000001.5s", "500ms", "1.5µs", "0ns").
fn parse_dur_ns(s: &str) -> Option<u64> {
    let s = s.trim();
    let (num, scale_digits) = if let Some(x) = s.strip_suffix("ns") {
        (x, 0usize)
    } else if let Some(x) = s.strip_suffix("µs") {
        (x, 3)
    } else if let Some(x) = s.strip_suffix("ms") {
        (x, 6)
    } else if let Some(x) = s.strip_suffix('s') {
        (x, 9)
    } else {
        return None;
    };
    let (ip, fp) = match num.split_once('.') {
        Some((a, b)) => (a, b),
        None => (num, ""),
    };
    if fp.len() > scale_digits {
        return None;
    }
    let mut frac = fp.to_string();
    while frac.len() < scale_digits {
        frac.push('0');
    }
    let i: u64 = ip.parse().ok()?;
    let f: u64 = if frac.is_empty() { 0 } else { frac.parse().ok()? };
    i.checked_mul(10u64.pow(scale_digits as u32))?.checked_add(f)
}

fn field<'a>(s: &'a str, name: &str) -> Option<&'a str> {
    let i = s.find(name)? + name.len();
    let rest = &s[i..];
    let end = rest.find([',', ' ', '}', ')']).unwrap_or(rest.len());
    Some(&rest[..end])
}

fn parse_lock(s: &str) -> Option<Lk> {
    let i = s.find("state: ")? + 7;
    let st = &s[i..];
    if st.starts_with("Init") {
        Some(Lk::Init)
    } else if st.starts_with("Locked") {
        Some(Lk::Locked {
            count: field(st, "count: ")?.parse().ok()?,
            reset: parse_dur_ns(field(st, "reset_at: ")?)?,
            unlock: parse_dur_ns(field(st, "unlock_at: ")?)?,
        })
    } else if let Some(r) = st.strip_prefix("Unlocked(") {
        let end = r.find(')')?;
        let (a, b) = r[..end].split_once(", ")?;
        Some(Lk::Unlocked { count: a.parse().ok()?, reset: parse_dur_ns(b)? })
    } else {
        None
    }
}

fn parser_self_test() -> Result<(), String> {
    let cases: [(&str, u64); 7] = [
        ("0ns", 0),
        ("17ns", 17),
        ("1.5µs", 1500),
        ("500ms", 500_000_000),
        ("1750000001s", 1_750_000_001 * NS),
        ("1750000001.5s", 1_750_000_001 * NS + 500_000_000),
        ("1.000000001s", NS + 1),
    ];
    for (s, v) in cases {
        if parse_dur_ns(s) != Some(v) {
            return Err(format!("parse_dur_ns({s})"));
        }
        // round trip against std's own rendering
        if format!("{:?}", dur(v)) != s {
            return Err(format!("Duration debug rendering changed for {v}"));
        }
    }
    let mut sl = hooks::SoftLock::new(CredSoftLockPolicy::Password);
    if parse_lock(&sl.debug_state()) != Some(Lk::Init) {
        return Err(format!("parse_lock(init): {}", sl.debug_state()));
    }
    sl.record_failure(dur(BASE_S * NS + 5));
    match parse_lock(&sl.debug_state()) {
        Some(Lk::Locked { count: 1, unlock, .. }) if unlock == BASE_S * NS + 5 + NS => {}
        x => return Err(format!("parse_lock(locked): {} -> {x:?}", sl.debug_state())),
    }
    sl.apply_time_step(dur(BASE_S * NS + 3 * NS), None);
    match parse_lock(&sl.debug_state()) {
        Some(Lk::Unlocked { count: 1, .. }) => {}
        x => return Err(format!("parse_lock(unlocked): {} -> {x:?}", sl.debug_state())),
    }
    Ok(())
}

#[derive(Clone, Copy, Debug, PartialEq, Eq)]
enum Pol {
    Pw,
    Totp(u64),
}
impl Pol {
    fn win(&self) -> u64 {
        match self {
            Pol::Pw => DAY,
            Pol::Totp(s) => *s,
        }
    }
    fn cap(&self) -> u32 {
        match self {
            Pol::Pw => 100,
            Pol::Totp(_) => 3,
        }
    }
    fn name(&self) -> String {
        match self {
            Pol::Pw => "password".into(),
            Pol::Totp(s) => format!("totp{s}"),
        }
    }
    fn wend_ns(&self, t: u64) -> u64 {
        ((t / NS) / self.win() + 1) * self.win() * NS
    }
}

#[derive(Clone, Copy, Debug, PartialEq, Eq)]
enum Res {
    /// evaluated and accepted (or accepted as a partial factor): the credential was not refused
    Success,
    /// evaluated and wrong
    Wrong,
    /// refused because locked
    Locked,
    /// nothing learnt (no session, error, not applicable)
    Other,
}

struct Track {
    pol: Pol,
    last_fail: Option<(u64, u64)>,
    max_unlock: u64,
    wins: BTreeMap<u64, u32>,
    used_credits: BTreeSet<usize>,
    refused_seen: bool,
}

#[derive(Default)]
struct LockOracle {
    tracks: BTreeMap<String, Track>,
    fails: u64,
    refusals_after_fail: u64,
}

struct Obs<'a> {
    key: &'a str,
    pol: Pol,
    ct: u64,
    res: Res,
    got: &'a str,
    path: &'a str,
    after: Option<Lk>,
    /// administrator expiry credits of the account: (value, ) in creation order
    credits: &'a [u64],
    admin_touched: bool,
}

impl LockOracle {
    fn observe(&mut self, out: &mut Outcome, step: usize, o: Obs) {
        if o.res == Res::Other {
            return;
        }
        let tr = self.tracks.entry(o.key.to_string()).or_insert_with(|| Track {
            pol: o.pol,
            last_fail: None,
            max_unlock: 0,
            wins: BTreeMap::new(),
            used_credits: BTreeSet::new(),
            refused_seen: false,
        });
        let pol = tr.pol;
        // ---- refused until the unlock time ----------------------------------------------------
        if let Some((t, u)) = tr.last_fail {
            let wend = pol.wend_ns(t);
            let inside = o.ct < u && o.ct <= wend;
            if o.res == Res::Locked {
                self.refusals_after_fail += 1;
                tr.refused_seen = true;
                if o.ct == t {
                    out.probe("same-instant-retry-refused");
                }
                if o.got == "right" {
                    out.probe("right-secret-refused-while-locked");
                }
            } else if inside {
                // an administrator-set expiry that lies before `ct` may clear the lock, once per edit
                let credit = o.credits.iter().enumerate().find(|(i, e)| **e < o.ct && !tr.used_credits.contains(i)).map(|(i, e)| (i, *e));
                if let Some((i, e)) = credit {
                    tr.used_credits.insert(i);
                    tr.last_fail = None;
                    tr.max_unlock = 0;
                    tr.wins.clear();
                    out.probe("admin-expiry-cleared-lock");
                    if e < t {
                        out.probe("stale-admin-expiry-voided-later-lock");
                    }
                } else {
                    let when = if o.ct == t { "same-instant" } else { "before-unlock" };
                    let sig = if o.credits.is_empty() {
                        format!("path={}; policy={}; when={when}; admin-expiry=none", o.path, pol.name())
                    } else {
                        // every expiry edit that could justify a clear has already been used once
                        format!("path={}; cause=lock cleared more often than the administrator edited the soft-lock expiry", o.path)
                    };
                    out.violate(
                        "C28",
                        "refused-until-unlock",
                        &sig,
                        format!(
                            "credential {} failed at {} ns with announced unlock {} ns (window end {} ns) but an attempt at {} ns via {} was evaluated ({})",
                            o.key, t, u, wend, o.ct, o.path, o.got
                        ),
                        step,
                    );
                }
            } else if o.ct < u {
                out.probe("lock-cut-by-window-reset");
            }
        }
        if o.res != Res::Wrong {
            return;
        }
        // ---- an evaluated failure ---------------------------------------------------------------
        self.fails += 1;
        let (count, unlock) = match o.after {
            Some(Lk::Locked { count, unlock, .. }) => (count, unlock),
            ref other => {
                out.violate(
                    "C28",
                    "failure-locks",
                    &format!("path={}; policy={}; state-after={}", o.path, pol.name(), match other { None => "absent", Some(Lk::Init) => "init", _ => "unlocked" }),
                    format!("evaluated failure on {} at {} ns left the credential not locked: {:?}", o.key, o.ct, other),
                    step,
                );
                return;
            }
        };
        if let Some((t0, _)) = tr.last_fail {
            if o.ct <= pol.wend_ns(t0) {
                if unlock < tr.max_unlock {
                    out.violate(
                        "C28",
                        "unlock-monotone",
                        &format!("path={}; policy={}", o.path, pol.name()),
                        format!("failure on {} at {} ns announced unlock {} ns, earlier than the previous {} ns", o.key, o.ct, unlock, tr.max_unlock),
                        step,
                    );
                }
            } else {
                tr.max_unlock = 0;
            }
        }
        tr.last_fail = Some((o.ct, unlock));
        tr.max_unlock = tr.max_unlock.max(unlock);
        if o.ct % NS == 0 {
            if (o.ct / NS) % DAY == 0 {
                out.probe("failure-at-exact-day-boundary");
            } else if (o.ct / NS) % 30 == 0 {
                out.probe("failure-at-exact-step-boundary");
            }
        }
        if count >= 100 {
            out.probe("announced-count-100");
        }
        // ---- count bound (no administrator intervention on this account) ------------------------
        if !o.admin_touched {
            let w = (o.ct / NS) / pol.win();
            let n = tr.wins.entry(w).or_insert(0);
            *n += 1;
            if *n == pol.cap() {
                out.probe(match pol {
                    Pol::Pw => "reached-100-failures-in-day",
                    Pol::Totp(_) => "reached-3-failures-in-step",
                });
            }
            if *n == pol.cap() + 1 {
                out.violate(
                    "C28",
                    "count-bound",
                    &format!("path={}; policy={}; more than {} evaluated failures in one {}", o.path, pol.name(), pol.cap(), if pol == Pol::Pw { "UTC day" } else { "TOTP step" }),
                    format!("credential {}: evaluated failure number {} in window {} (window length {} s) at {} ns, no administrator change", o.key, *n, w, pol.win(), o.ct),
                    step,
                );
            }
        }
    }

    fn digest(&self, ct: u64) -> u64 {
        let mut s = String::new();
        for (k, t) in &self.tracks {
            let n: u32 = t.wins.values().sum();
            let st = match t.last_fail {
                None => 0,
                Some((_, u)) if ct < u => 1,
                Some(_) => 2,
            };
            s.push_str(&format!("{}:{}:{}:{};", fnv64(k.as_bytes()) & 0xff, st, n, t.used_credits.len()));
        }
        fnv64(s.as_bytes())
    }
}

// ================================================================================================
// C28 — server mode
// ================================================================================================

#[allow(dead_code)]
struct Acct {
    name: String,
    uuid: Uuid,
    kind: String,
    unix: String,
    pw: String,
    upw: String,
    totp: Option<Totp>,
    token: Option<JwsCompact>,
    credits: Vec<u64>,
    admin_touched: bool,
}

struct Slot {
    a: usize,
    sid: Uuid,
    opened: u64,
}

struct Srv {
    idm: Idm,
    accts: Vec<Acct>,
    slots: BTreeMap<u64, Slot>,
    clock: u64,
    or: LockOracle,
    kinds: Vec<u64>,
    cur_opened: Option<u64>,
}

fn cai() -> ClientAuthInfo {
    ClientAuthInfo::new(Source::Internal, None, None, None)
}

fn ev_init(name: &str) -> AuthEvent {
    AuthEvent {
        ident: None,
        step: AuthEventStep::Init(AuthEventStepInit { username: name.to_string(), issue: AuthIssueSession::Token, privileged: false }),
    }
}
fn ev_begin(sid: Uuid, mech: AuthMech) -> AuthEvent {
    AuthEvent { ident: None, step: AuthEventStep::Begin(AuthEventStepMech { sessionid: sid, mech }) }
}
fn ev_cred(sid: Uuid, cred: AuthCredential) -> AuthEvent {
    AuthEvent { ident: None, step: AuthEventStep::Cred(AuthEventStepCred { sessionid: sid, cred }) }
}

fn wrong_totp(t: &Totp, ct: Duration) -> u32 {
    let cur = t.do_totp_duration_from_epoch(&ct).unwrap_or(0);
    let mut c = (cur + 1) % 1_000_000;
    for _ in 0..4 {
        if !t.verify(c, ct) {
            break;
        }
        c = (c + 1) % 1_000_000;
    }
    c
}

/// Create the TOTP-protected primary credential through a real credential update session.
fn setup_pw_totp(idm: &Idm, uuid: Uuid, pw: &str, ct: Duration) -> Result<Totp, String> {
    let cust = {
        let mut w = block(idm.idms.proxy_write(ct)).map_err(|e| herr("proxy_write", e))?;
        let e = w.qs_write.internal_search_uuid(uuid).map_err(|e| herr("search", e))?;
        let (cust, _st) = w
            .init_credential_update(&InitCredentialUpdateEvent::new(Identity::from_impersonate_entry_readwrite(e), uuid), ct)
            .map_err(|e| herr("init_credential_update", e))?;
        w.commit().map_err(|e| herr("commit", e))?;
        cust
    };
    let totp = {
        let cu = block(idm.idms.cred_update_transaction()).map_err(|e| herr("cu txn", e))?;
        cu.credential_primary_set_password(&cust, ct, pw).map_err(|e| herr("set_password", e))?;
        let st = cu.credential_primary_init_totp(&cust, ct).map_err(|e| herr("init_totp", e))?;
        let totp: Totp = match st.mfaregstate() {
            MfaRegStateStatus::TotpCheck(secret) => secret.clone().try_into().map_err(|_| "totp secret".to_string())?,
            _ => return Err("unexpected mfa registration state".into()),
        };
        let code = totp.do_totp_duration_from_epoch(&ct).map_err(|e| herr("totp", e))?;
        let st = cu.credential_primary_check_totp(&cust, ct, code, "totp").map_err(|e| herr("check_totp", e))?;
        if !matches!(st.mfaregstate(), MfaRegStateStatus::None) {
            return Err("totp registration did not complete".into());
        }
        totp
    };
    let mut w = block(idm.idms.proxy_write(ct)).map_err(|e| herr("proxy_write", e))?;
    w.commit_credential_update(&cust, ct).map_err(|e| herr("commit_credential_update", e))?;
    w.commit().map_err(|e| herr("commit", e))?;
    Ok(totp)
}

impl Srv {
    fn new(cfg: &J, seed: u64) -> Result<Srv, String> {
        entropy::swap_stream(Some(Rng::new(seed ^ 0x5e70_5e70)));
        let start = ju(cfg, "start");
        let ct = dur(start);
        let qs = boot_qs(&NodeCfg::mem(), ct).map_err(|e| herr("boot_qs", e))?;
        let idm = boot_idm(qs, ct).map_err(|e| herr("boot_idm", e))?;
        let mut accts = vec![];
        let list = cfg.get("accounts").and_then(|x| x.as_array()).cloned().unwrap_or_default();
        let fb_group = Uuid::parse_str(js(cfg, "fallback_group")).map_err(|e| herr("uuid", e))?;
        {
            let mut w = block(idm.idms.proxy_write(ct)).map_err(|e| herr("proxy_write", e))?;
            let mut ents = vec![];
            let mut g = group(fb_group, "c28_fallback");
            g.add_ava(Attribute::Class, EntryClass::AccountPolicy.to_value());
            g.add_ava(Attribute::AllowPrimaryCredFallback, Value::new_bool(true));
            for (i, a) in list.iter().enumerate() {
                let u = Uuid::parse_str(js(a, "uuid")).map_err(|e| herr("uuid", e))?;
                let posix = if js(a, "unix") == "none" { None } else { Some(3000 + i as u32) };
                ents.push(person(u, js(a, "name"), posix));
                if js(a, "unix") == "fallback" {
                    g.add_ava(Attribute::Member, Value::Refer(u));
                }
            }
            ents.push(g);
            w.qs_write.internal_create(ents).map_err(|e| herr("create", e))?;
            let p = CryptoPolicy::minimum();
            for a in list.iter() {
                let u = Uuid::parse_str(js(a, "uuid")).map_err(|e| herr("uuid", e))?;
                let mut mods = vec![];
                if js(a, "kind") == "pw" {
                    let c = Credential::new_password_only(&p, js(a, "pw"), OffsetDateTime::UNIX_EPOCH).map_err(|e| herr("cred", e))?;
                    mods.push(Modify::Present(Attribute::PrimaryCredential, Value::new_credential("primary", c)));
                }
                if js(a, "unix") == "own" {
                    let c = Credential::new_password_only(&p, js(a, "upw"), OffsetDateTime::UNIX_EPOCH).map_err(|e| herr("cred", e))?;
                    mods.push(Modify::Present(Attribute::UnixPassword, Value::new_credential("unix", c)));
                }
                if !mods.is_empty() {
                    w.qs_write.internal_modify_uuid(u, &ModifyList::new_list(mods)).map_err(|e| herr("modify", e))?;
                }
            }
            w.commit().map_err(|e| herr("commit", e))?;
        }
        for a in list.iter() {
            let u = Uuid::parse_str(js(a, "uuid")).map_err(|e| herr("uuid", e))?;
            let totp = if js(a, "kind") == "totp" { Some(setup_pw_totp(&idm, u, js(a, "pw"), ct)?) } else { None };
            accts.push(Acct {
                name: js(a, "name").to_string(),
                uuid: u,
                kind: js(a, "kind").to_string(),
                unix: js(a, "unix").to_string(),
                pw: js(a, "pw").to_string(),
                upw: js(a, "upw").to_string(),
                totp,
                token: None,
                credits: vec![],
                admin_touched: false,
            });
        }
        Ok(Srv { idm, accts, slots: BTreeMap::new(), clock: start, or: LockOracle::default(), kinds: vec![], cur_opened: None })
    }

    fn primary_pol(&self, a: usize) -> Pol {
        match &self.accts[a].totp {
            Some(_) => Pol::Totp(30),
            None => Pol::Pw,
        }
    }

    /// One `Cred` step on an open auth session; returns the observation text.
    fn cred_step(&mut self, out: &mut Outcome, step: usize, sid: Uuid, a: usize, send: &str, path: &str) -> Result<String, String> {
        let ct = dur(self.clock);
        let acct = &self.accts[a];
        let (cred, got) = match send {
            "pw_ok" => (AuthCredential::Password(acct.pw.clone()), "right"),
            "pw_bad" => (AuthCredential::Password(format!("{}x", acct.pw)), "wrong"),
            "totp_ok" => match &acct.totp {
                Some(t) => (AuthCredential::Totp(t.do_totp_duration_from_epoch(&ct).map_err(|e| herr("totp", e))?), "right"),
                None => (AuthCredential::Totp(123_456), "wrong"),
            },
            _ => match &acct.totp {
                Some(t) => (AuthCredential::Totp(wrong_totp(t, ct)), "wrong"),
                None => (AuthCredential::Totp(654_321), "wrong"),
            },
        };
        let mut au = block(self.idm.idms.auth()).map_err(|e| herr("auth txn", e))?;
        let key = match au.qs_read.internal_search_uuid(acct.uuid) {
            Ok(e) => e.get_ava_single_credential(Attribute::PrimaryCredential).map(hooks::credential_uuid),
            Err(e) => return Err(herr("search", e)),
        };
        let Some(key) = key else { return Ok("no-primary".into()) };
        let r = block(au.auth(&ev_cred(sid, cred), ct, cai()));
        let after = hooks::idm_softlock_debug(&au, key);
        let (res, label, token) = match r {
            Ok(ar) => match ar.state {
                AuthState::Denied(m) if m == LOCKED_MSG => (Res::Locked, "locked".to_string(), None),
                AuthState::Denied(m) => (Res::Wrong, format!("denied:{m}"), None),
                AuthState::Success(tok, _) => (Res::Success, "success".to_string(), Some(*tok)),
                AuthState::Continue(_) => (Res::Success, "continue".to_string(), None),
                _ => (Res::Other, "other".to_string(), None),
            },
            Err(e) => (Res::Other, format!("err:{e:?}"), None),
        };
        au.commit().map_err(|e| herr("auth commit", e))?;
        let after = match after {
            Some(s) => Some(parse_lock(&s).ok_or_else(|| format!("unparsable soft-lock state {s}"))?),
            None => None,
        };
        if let Some(t) = token {
            self.accts[a].token = Some(t);
            self.slots.retain(|_, s| s.sid != sid);
        }
        let got_s = match res {
            Res::Success if label == "continue" => "continue",
            Res::Success => "success",
            Res::Wrong => "wrong",
            _ => got,
        };
        let pol = self.primary_pol(a);
        let ks = key.to_string();
        let acct = &self.accts[a];
        if res == Res::Locked {
            if let (Some(op), Some(tr)) = (self.cur_opened, self.or.tracks.get(&ks)) {
                if matches!(tr.last_fail, Some((t, _)) if t >= op) {
                    out.probe("cred-refused-on-session-opened-before-failure");
                }
            }
        }
        self.or.observe(out, step, Obs { key: &ks, pol, ct: self.clock, res, got: got_s, path, after, credits: &acct.credits, admin_touched: acct.admin_touched });
        Ok(label)
    }

    fn init(&mut self, a: usize) -> Result<(Option<Uuid>, String), String> {
        let ct = dur(self.clock);
        let mut au = block(self.idm.idms.auth()).map_err(|e| herr("auth txn", e))?;
        let r = block(au.auth(&ev_init(&self.accts[a].name), ct, cai()));
        au.commit().map_err(|e| herr("auth commit", e))?;
        Ok(match r {
            Ok(ar) => match ar.state {
                AuthState::Choose(_) => (Some(ar.sessionid), "choose".into()),
                s => (None, format!("init:{}", state_name(&s))),
            },
            Err(e) => (None, format!("err:{e:?}")),
        })
    }

    fn begin(&mut self, sid: Uuid, a: usize) -> Result<(bool, String), String> {
        let ct = dur(self.clock);
        let mech = if self.accts[a].totp.is_some() { AuthMech::PasswordTotp } else { AuthMech::Password };
        let mut au = block(self.idm.idms.auth()).map_err(|e| herr("auth txn", e))?;
        let r = block(au.auth(&ev_begin(sid, mech), ct, cai()));
        au.commit().map_err(|e| herr("auth commit", e))?;
        Ok(match r {
            Ok(ar) => match ar.state {
                AuthState::Continue(_) => (true, "continue".into()),
                AuthState::Denied(m) if m == LOCKED_MSG => (false, "locked".into()),
                s => (false, format!("begin:{}", state_name(&s))),
            },
            Err(e) => (false, format!("err:{e:?}")),
        })
    }

    /// auth_unix / auth_ldap: the reply does not distinguish "locked" from "wrong", so an
    /// evaluated failure is recognised by the soft-lock announcement changing to a new lock.
    fn unix_like(&mut self, out: &mut Outcome, step: usize, a: usize, ok: bool, ldap: bool) -> Result<String, String> {
        let ct = dur(self.clock);
        let acct = &self.accts[a];
        let path = if ldap { "auth_ldap" } else { "auth_unix" };
        let mut au = block(self.idm.idms.auth()).map_err(|e| herr("auth txn", e))?;
        let e = au.qs_read.internal_search_uuid(acct.uuid).map_err(|e| herr("search", e))?;
        let (key, secret, pol) = match acct.unix.as_str() {
            "own" => (e.get_ava_single_credential(Attribute::UnixPassword).map(hooks::credential_uuid), acct.upw.clone(), Pol::Pw),
            "fallback" => (e.get_ava_single_credential(Attribute::PrimaryCredential).map(hooks::credential_uuid), acct.pw.clone(), self.primary_pol(a)),
            _ => (None, String::new(), Pol::Pw),
        };
        let Some(key) = key else { return Ok("no-unix-credential".into()) };
        let secret = if ok { secret } else { format!("{secret}x") };
        let before = hooks::idm_softlock_debug(&au, key);
        let accepted = if ldap {
            let lae = LdapAuthEvent::from_parts(acct.uuid, secret).map_err(|e| herr("lae", e))?;
            block(au.auth_ldap(&lae, ct)).map(|o| o.is_some())
        } else {
            let uae = UnixUserAuthEvent::from_parts(hooks::identity_internal(), acct.uuid, secret).map_err(|e| herr("uae", e))?;
            block(au.auth_unix(&uae, ct)).map(|o| o.is_some())
        };
        let after_s = hooks::idm_softlock_debug(&au, key);
        au.commit().map_err(|e| herr("auth commit", e))?;
        let after = match &after_s {
            Some(s) => Some(parse_lock(s).ok_or_else(|| format!("unparsable soft-lock state {s}"))?),
            None => None,
        };
        let (res, label) = match accepted {
            Ok(true) => (Res::Success, "accepted"),
            Ok(false) if ok => (Res::Locked, "refused-right-secret"),
            Ok(false) => {
                let b = before.as_deref().and_then(parse_lock);
                let newly = match (&b, &after) {
                    (Some(Lk::Locked { count: c1, unlock: u1, .. }), Some(Lk::Locked { count: c2, unlock: u2, .. })) => c1 != c2 || u1 != u2,
                    (_, Some(Lk::Locked { .. })) => true,
                    _ => false,
                };
                if newly {
                    (Res::Wrong, "wrong")
                } else {
                    (Res::Locked, "refused")
                }
            }
            Err(_) => (Res::Other, "error"),
        };
        if acct.unix == "fallback" && acct.totp.is_some() && res == Res::Wrong {
            out.probe("unix-fallback-failure-on-totp-credential");
        }
        let got = match res {
            Res::Success => "success",
            Res::Wrong => "wrong",
            _ if ok => "right",
            _ => "wrong",
        };
        let ks = key.to_string();
        self.or.observe(out, step, Obs { key: &ks, pol, ct: self.clock, res, got, path, after, credits: &acct.credits, admin_touched: acct.admin_touched });
        Ok(label.to_string())
    }

    fn apply(&mut self, out: &mut Outcome, step: usize, ev: &J) -> Result<String, String> {
        let op = js(ev, "op");
        let na = self.accts.len().max(1);
        let a = (ju(ev, "a") as usize) % na;
        match op {
            "adv" => {
                let to = ju(ev, "to");
                if to > self.clock {
                    self.clock = to;
                }
                Ok("ok".into())
            }
            "init" => {
                let (sid, label) = self.init(a)?;
                if label.contains("InvalidSessionState") {
                    out.probe("session-id-collision");
                }
                if let Some(sid) = sid {
                    self.slots.insert(ju(ev, "slot"), Slot { a, sid, opened: self.clock });
                }
                Ok(label)
            }
            "begin" => {
                let Some(s) = self.slots.get(&ju(ev, "slot")) else { return Ok("no-slot".into()) };
                let (sid, a) = (s.sid, s.a);
                let (_, label) = self.begin(sid, a)?;
                if label == "locked" {
                    out.probe("begin-refused-locked");
                }
                Ok(label)
            }
            "cred" => {
                let Some(s) = self.slots.get(&ju(ev, "slot")) else { return Ok("no-slot".into()) };
                let (sid, a) = (s.sid, s.a);
                self.cur_opened = Some(s.opened);
                let r = self.cred_step(out, step, sid, a, js(ev, "send"), "auth");
                self.cur_opened = None;
                r
            }
            "login" => {
                let (sid, l1) = self.init(a)?;
                let Some(sid) = sid else { return Ok(l1) };
                let (go, l2) = self.begin(sid, a)?;
                if !go {
                    if l2 == "locked" {
                        out.probe("begin-refused-locked");
                    }
                    return Ok(l2);
                }
                let mut label = String::new();
                if self.accts[a].totp.is_some() {
                    let send = if js(ev, "totp") == "bad" { "totp_bad" } else { "totp_ok" };
                    label = self.cred_step(out, step, sid, a, send, "auth")?;
                    if label != "continue" {
                        return Ok(label);
                    }
                }
                let send = if js(ev, "pw") == "bad" { "pw_bad" } else { "pw_ok" };
                let l = self.cred_step(out, step, sid, a, send, "auth")?;
                Ok(format!("{label}/{l}"))
            }
            "reauth" => {
                let ct = dur(self.clock);
                let Some(tok) = self.accts[a].token.clone() else { return Ok("no-token".into()) };
                let ident = {
                    let mut pr = block(self.idm.idms.proxy_read()).map_err(|e| herr("proxy_read", e))?;
                    pr.validate_client_auth_info_to_ident(ClientAuthInfo::new(Source::Internal, None, Some(tok), None), ct)
                };
                let Ok(ident) = ident else { return Ok("token-invalid".into()) };
                let mut au = block(self.idm.idms.auth()).map_err(|e| herr("auth txn", e))?;
                let r = block(au.reauth_init(ident, AuthIssueSession::Token, ct, cai(), ReauthRequest::GrantReadWrite));
                au.commit().map_err(|e| herr("auth commit", e))?;
                Ok(match r {
                    Ok(ar) => match ar.state {
                        AuthState::Continue(_) => {
                            self.slots.insert(ju(ev, "slot"), Slot { a, sid: ar.sessionid, opened: self.clock });
                            out.probe("reauth-session-open");
                            "continue".into()
                        }
                        AuthState::Denied(m) if m == LOCKED_MSG_REAUTH => {
                            out.probe("reauth-refused-locked");
                            "locked".into()
                        }
                        s => format!("reauth:{}", state_name(&s)),
                    },
                    Err(e) => format!("err:{e:?}"),
                })
            }
            "unix" => self.unix_like(out, step, a, jb(ev, "ok"), false),
            "ldap" => self.unix_like(out, step, a, jb(ev, "ok"), true),
            "deliver" => {
                let ct = dur(self.clock);
                let mut n = 0;
                loop {
                    let mut buf: Vec<DelayedAction> = Vec::with_capacity(16);
                    let got = poll_now(self.idm.delayed.recv_many(&mut buf)).unwrap_or(0);
                    if got == 0 {
                        break;
                    }
                    for da in buf.iter() {
                        let mut w = block(self.idm.idms.proxy_write(ct)).map_err(|e| herr("proxy_write", e))?;
                        if w.process_delayedaction(da, ct).is_ok() {
                            w.commit().map_err(|e| herr("commit", e))?;
                            n += 1;
                        }
                    }
                }
                Ok(format!("delivered:{n}"))
            }
            "expire" => {
                let ct = dur(self.clock);
                let ml = match ev.get("at").and_then(|x| x.as_u64()) {
                    Some(at) => ModifyList::new_purge_and_set(Attribute::AccountSoftlockExpire, Value::new_datetime_epoch(dur(at))),
                    None => ModifyList::new_purge(Attribute::AccountSoftlockExpire),
                };
                let mut w = block(self.idm.idms.proxy_write(ct)).map_err(|e| herr("proxy_write", e))?;
                let r = w.qs_write.internal_modify_uuid(self.accts[a].uuid, &ml);
                if r.is_ok() {
                    w.commit().map_err(|e| herr("commit", e))?;
                    self.accts[a].admin_touched = true;
                    if let Some(at) = ev.get("at").and_then(|x| x.as_u64()) {
                        // the attribute is stored with second resolution as the server reads it
                        self.accts[a].credits.push((at / NS) * NS);
                    }
                    out.fault("admin-softlock-expire");
                }
                Ok(format!("expire:{}", r.is_ok()))
            }
            _ => Ok("unknown".into()),
        }
    }
}

fn state_name(s: &AuthState) -> String {
    match s {
        AuthState::Choose(_) => "choose".into(),
        AuthState::Continue(_) => "continue".into(),
        AuthState::External(_) => "external".into(),
        AuthState::Denied(m) => format!("denied:{m}"),
        AuthState::Success(..) => "success".into(),
    }
}

// ================================================================================================
// C28 — bare state machine mode
// ================================================================================================

struct BareCred {
    pol: Pol,
    sl: hooks::SoftLock,
    expiry: Option<u64>,
    credits: Vec<u64>,
    touched: bool,
}

fn bare_pol(s: &str) -> Pol {
    match s {
        "totp30" => Pol::Totp(30),
        "totp60" => Pol::Totp(60),
        _ => Pol::Pw,
    }
}

fn execute_bare(plan: &Plan, out: &mut Outcome) -> Result<(), String> {
    let mut creds: Vec<BareCred> = plan
        .cfg
        .get("creds")
        .and_then(|x| x.as_array())
        .cloned()
        .unwrap_or_default()
        .iter()
        .map(|c| {
            let pol = bare_pol(c.as_str().unwrap_or("pw"));
            let p = match pol {
                Pol::Pw => CredSoftLockPolicy::Password,
                Pol::Totp(s) => CredSoftLockPolicy::Totp(s),
            };
            BareCred { pol, sl: hooks::SoftLock::new(p), expiry: None, credits: vec![], touched: false }
        })
        .collect();
    if creds.is_empty() {
        return Err("no creds".into());
    }
    let mut clock = ju(&plan.cfg, "start");
    let start = clock;
    let mut or = LockOracle::default();
    let mut kinds = vec![];
    for (i, ev) in plan.events.iter().enumerate() {
        let c = (ju(ev, "c") as usize) % creds.len();
        let label = match js(ev, "op") {
            "adv" => {
                clock = clock.max(ju(ev, "to"));
                "adv".to_string()
            }
            "expire" => {
                let at = ev.get("at").and_then(|x| x.as_u64());
                creds[c].expiry = at;
                creds[c].touched = true;
                if let Some(at) = at {
                    creds[c].credits.push(at);
                }
                out.fault("admin-softlock-expire");
                "expire".to_string()
            }
            "att" => {
                let ok = jb(ev, "ok");
                let cr = &mut creds[c];
                cr.sl.apply_time_step(dur(clock), cr.expiry.map(dur));
                let res = if !cr.sl.is_valid() {
                    Res::Locked
                } else if ok {
                    Res::Success
                } else {
                    cr.sl.record_failure(dur(clock));
                    Res::Wrong
                };
                let s = cr.sl.debug_state();
                let after = Some(parse_lock(&s).ok_or_else(|| format!("unparsable soft-lock state {s}"))?);
                let got = match res {
                    Res::Success => "success",
                    Res::Wrong => "wrong",
                    _ if ok => "right",
                    _ => "wrong",
                };
                let key = format!("cred{c}");
                or.observe(out, i, Obs { key: &key, pol: cr.pol, ct: clock, res, got, path: "state-machine", after, credits: &cr.credits, admin_touched: cr.touched });
                format!("att:{res:?}")
            }
            _ => "unknown".to_string(),
        };
        out.chain(fnv64(label.as_bytes()) ^ clock);
        out.states.push(or.digest(clock));
        kinds.push(fnv64(label.as_bytes()));
        out.events_run += 1;
    }
    finish_c28(out, &or, &kinds, clock, start);
    Ok(())
}

fn finish_c28(out: &mut Outcome, or: &LockOracle, kinds: &[u64], clock: u64, start: u64) {
    for w in kinds.windows(3) {
        out.trigrams.push(w[0].rotate_left(7) ^ w[1].rotate_left(3) ^ w[2]);
    }
    out.trigrams.sort();
    out.trigrams.dedup();
    out.states.sort();
    out.states.dedup();
    out.sim_secs = (clock - start) as f64 / NS as f64;
    out.nontrivial = or.fails >= 1 && or.refusals_after_fail >= 1;
}

const C28_PROBES: [&str; 16] = [
    "same-instant-retry-refused",
    "right-secret-refused-while-locked",
    "admin-expiry-cleared-lock",
    "stale-admin-expiry-voided-later-lock",
    "lock-cut-by-window-reset",
    "failure-at-exact-day-boundary",
    "failure-at-exact-step-boundary",
    "announced-count-100",
    "reached-100-failures-in-day",
    "reached-3-failures-in-step",
    "session-id-collision",
    "begin-refused-locked",
    "reauth-session-open",
    "reauth-refused-locked",
    "unix-fallback-failure-on-totp-credential",
    "cred-refused-on-session-opened-before-failure",
];

fn execute_c28(plan: &Plan) -> Outcome {
    let mut out = Outcome::default();
    for p in C28_PROBES {
        out.probe0(p);
    }
    if let Err(e) = parser_self_test() {
        out.harness_error = Some(format!("soft-lock announcement parser self-test: {e}"));
        return out;
    }
    if js(&plan.cfg, "mode") == "bare" {
        if let Err(e) = execute_bare(plan, &mut out) {
            out.harness_error = Some(e);
        }
        return out;
    }
    let mut srv = match Srv::new(&plan.cfg, plan.seed) {
        Ok(s) => s,
        Err(e) => {
            entropy::swap_stream(None);
            out.harness_error = Some(format!("setup: {e}"));
            return out;
        }
    };
    let start = srv.clock;
    for (i, ev) in plan.events.iter().enumerate() {
        let id = ev.get("id").and_then(|x| x.as_u64()).unwrap_or(i as u64);
        entropy::swap_stream(Some(Rng::new(plan.seed ^ id.wrapping_mul(K))));
        match srv.apply(&mut out, i, ev) {
            Ok(label) => {
                let l = format!("{}:{}", js(ev, "op"), label);
                out.chain(fnv64(l.as_bytes()) ^ srv.clock);
                // event kind = operation + coarse result (no free text after the second ':')
                let coarse: String = l.splitn(3, ':').take(2).collect::<Vec<_>>().join(":");
                srv.kinds.push(fnv64(coarse.as_bytes()));
            }
            Err(e) => {
                out.harness_error = Some(format!("event {i} ({}): {e}", js(ev, "op")));
                break;
            }
        }
        let d = srv.or.digest(srv.clock) ^ (srv.slots.len() as u64).wrapping_mul(K);
        out.states.push(d);
        out.events_run += 1;
    }
    entropy::swap_stream(None);
    let kinds = std::mem::take(&mut srv.kinds);
    finish_c28(&mut out, &srv.or, &kinds, srv.clock, start);
    out
}

// ---- C28 generator -----------------------------------------------------------------------------

struct Clock {
    now: u64,
}
impl Clock {
    /// One move on the coarse grid; returns the new absolute time.
    fn step(&mut self, r: &mut Rng, style: u64) -> u64 {
        let s = self.now / NS;
        let next_step = (s / 30 + 1) * 30 * NS;
        let next_day = (s / DAY + 1) * DAY * NS;
        let w: [u32; 16] = match style {
            // hammer a password credential: mostly just past the longest delay
            1 => [4, 2, 1, 1, 2, 1, 2, 2, 60, 6, 0, 1, 1, 0, 0, 0],
            // hammer a TOTP credential: around one second and the step boundary
            2 => [10, 6, 4, 6, 10, 10, 2, 1, 2, 1, 6, 8, 6, 0, 0, 0],
            // day boundary hunting
            3 => [6, 3, 2, 3, 6, 6, 3, 3, 20, 4, 1, 1, 1, 6, 8, 6],
            _ => [10, 5, 4, 5, 10, 8, 5, 5, 8, 4, 3, 4, 3, 1, 1, 1],
        };
        let k = r.pick_weighted(&w);
        let to = match k {
            0 => self.now,
            1 => self.now + 1,
            2 => self.now + NS / 2,
            3 => self.now + NS - 1,
            4 => self.now + NS,
            5 => self.now + NS + 1,
            6 => self.now + 3 * NS + 1,
            7 => self.now + 5 * NS + 1,
            8 => self.now + 10 * NS + 1,
            9 => self.now + 11 * NS,
            10 => next_step - 1,
            11 => next_step,
            12 => next_step + 1,
            13 => next_day - NS,
            14 => next_day,
            _ => next_day + 1,
        };
        self.now = self.now.max(to);
        self.now
    }
}

fn gen_c28(seed: u64, tier: Tier) -> Plan {
    let mut k = Rng::stream(seed, "knobs");
    let mut r = Rng::stream(seed, "events");
    let bare = k.chance(1, 3);
    // start: mid-day, or shortly before a UTC day boundary
    let day0 = (BASE_S / DAY + 1) * DAY;
    let start_s = match k.below(4) {
        0 => day0 - 20,
        1 => day0 - 1200,
        2 => day0 - 45,
        _ => BASE_S + k.below(40_000),
    };
    let start = start_s * NS + if k.chance(1, 2) { 0 } else { k.below(NS) };
    let admin = k.chance(2, 5);
    let style = k.below(4); // 0 mixed, 1 hammer password, 2 hammer totp, 3 day boundary
    let mut clock = Clock { now: start };
    let mut events: Vec<J> = vec![];
    let mut id = 0u64;
    let mut push = |events: &mut Vec<J>, mut e: J| {
        id += 1;
        e["id"] = json!(id);
        events.push(e);
    };
    if bare {
        let n = match tier {
            Tier::Quick => 600 + k.below(1400),
            Tier::Thorough => 1500 + k.below(4000),
        } as usize;
        let creds: Vec<&str> = match style {
            1 | 3 => vec!["pw"],
            2 => vec![*k.pick(&["totp30", "totp60"])],
            _ => vec!["pw", "totp30", "totp60"],
        };
        let p_ok = *k.pick(&[0u64, 5, 15, 40]);
        while events.len() < n {
            let c = r.below(creds.len() as u64);
            if r.chance(3, 5) {
                let to = clock.step(&mut r, style);
                push(&mut events, json!({"op": "adv", "to": to}));
            }
            if admin && r.chance(1, 60) {
                let at = match r.below(5) {
                    0 => None,
                    1 => Some(clock.now - r.below(100) * NS),
                    2 => Some(clock.now),
                    3 => Some(clock.now + r.below(20) * NS),
                    _ => Some(clock.now + 2 * DAY * NS),
                };
                push(&mut events, json!({"op": "expire", "c": c, "at": at}));
            }
            let reps = 1 + r.below(3);
            for _ in 0..reps {
                push(&mut events, json!({"op": "att", "c": c, "ok": r.below(100) < p_ok}));
            }
        }
        return Plan { property: "C28".into(), seed, cfg: json!({"mode": "bare", "start": start, "creds": creds, "style": style, "admin": admin}), events };
    }
    // ---- server mode ----
    let mut accounts = vec![];
    let na = 2 + k.below(2);
    for i in 0..na {
        let kind = match (style, i) {
            (1, 0) | (3, 0) => "pw",
            (2, 0) => "totp",
            _ => *k.pick(&["pw", "totp"]),
        };
        let unix = match (style, i) {
            (1, 0) => "own",
            _ => *k.pick(&["own", "own", "fallback", "none"]),
        };
        accounts.push(json!({
            "name": format!("c28user{i}"),
            "uuid": uuid_for(5, 2800 + i).to_string(),
            "kind": kind,
            "unix": unix,
            "pw": strong(&mut k, 24),
            "upw": strong(&mut k, 24),
        }));
    }
    let n = match (tier, style) {
        (Tier::Quick, 1) => 400 + k.below(80),
        (Tier::Quick, _) => 140 + k.below(120),
        (Tier::Thorough, 1) => 450 + k.below(300),
        (Tier::Thorough, _) => 250 + k.below(500),
    } as usize;
    let p_ok = if style == 1 { *k.pick(&[0u64, 8]) } else { *k.pick(&[0u64, 10, 25, 50]) };
    let mut slot_stage: BTreeMap<u64, (usize, u8)> = BTreeMap::new(); // slot → (account, 0 init / 1 begun / 2 totp done)
    let is_totp = |a: usize| accounts[a]["kind"] == "totp";
    let has_unix = |a: usize| accounts[a]["unix"] != "none";
    while events.len() < n {
        if r.chance(if style == 1 { 9 } else { 3 }, if style == 1 { 10 } else { 5 }) {
            let to = clock.step(&mut r, style);
            push(&mut events, json!({"op": "adv", "to": to}));
        }
        let a = if style != 0 && r.chance(4, 5) { 0 } else { r.below(na) as usize };
        let ok = r.below(100) < p_ok;
        let w: [u32; 9] = match style {
            1 => [10, 2, 2, 3, 60, 10, 2, 2, if admin { 1 } else { 0 }],
            2 => [50, 6, 6, 10, 8, 4, 4, 4, if admin { 2 } else { 0 }],
            _ => [25, 10, 10, 16, 14, 8, 5, 5, if admin { 3 } else { 0 }],
        };
        match r.pick_weighted(&w) {
            0 => {
                let (t, p) = if ok {
                    ("ok", "ok")
                } else if is_totp(a) && r.chance(1, 2) {
                    ("bad", "ok")
                } else {
                    ("ok", "bad")
                };
                push(&mut events, json!({"op": "login", "a": a, "totp": t, "pw": p}));
            }
            1 => {
                let slot = r.below(4);
                slot_stage.insert(slot, (a, 0));
                push(&mut events, json!({"op": "init", "a": a, "slot": slot}));
            }
            2 => {
                let cands: Vec<u64> = slot_stage.iter().filter(|(_, v)| v.1 == 0).map(|(k, _)| *k).collect();
                let slot = if cands.is_empty() { r.below(4) } else { *r.pick(&cands) };
                if let Some(v) = slot_stage.get_mut(&slot) {
                    v.1 = 1;
                }
                push(&mut events, json!({"op": "begin", "slot": slot}));
            }
            3 => {
                let cands: Vec<u64> = slot_stage.iter().filter(|(_, v)| v.1 >= 1).map(|(k, _)| *k).collect();
                let slot = if cands.is_empty() { r.below(4) } else { *r.pick(&cands) };
                let (sa, stage) = slot_stage.get(&slot).copied().unwrap_or((0, 1));
                let send = if is_totp(sa) && stage == 1 {
                    if ok || r.chance(1, 2) {
                        slot_stage.insert(slot, (sa, 2));
                        "totp_ok"
                    } else {
                        slot_stage.remove(&slot);
                        "totp_bad"
                    }
                } else {
                    slot_stage.remove(&slot);
                    if ok {
                        "pw_ok"
                    } else {
                        "pw_bad"
                    }
                };
                push(&mut events, json!({"op": "cred", "slot": slot, "send": send}));
            }
            4 => {
                let a = if has_unix(a) { a } else { (0..na as usize).find(|x| has_unix(*x)).unwrap_or(a) };
                push(&mut events, json!({"op": "unix", "a": a, "ok": ok}));
            }
            5 => {
                let a = if has_unix(a) { a } else { (0..na as usize).find(|x| has_unix(*x)).unwrap_or(a) };
                push(&mut events, json!({"op": "ldap", "a": a, "ok": ok}));
            }
            6 => push(&mut events, json!({"op": "deliver"})),
            7 => {
                let slot = 4 + r.below(2);
                slot_stage.insert(slot, (a, 1));
                push(&mut events, json!({"op": "deliver"}));
                push(&mut events, json!({"op": "reauth", "a": a, "slot": slot}));
            }
            _ => {
                let at = match r.below(5) {
                    0 => None,
                    1 => Some(clock.now - r.below(100) * NS),
                    2 => Some(clock.now),
                    3 => Some(clock.now + r.below(20) * NS),
                    _ => Some(clock.now + 2 * DAY * NS),
                };
                push(&mut events, json!({"op": "expire", "a": a, "at": at}));
            }
        }
    }
    Plan {
        property: "C28".into(),
        seed,
        cfg: json!({"mode": "server", "start": start, "accounts": accounts, "fallback_group": uuid_for(6, 2899).to_string(), "style": style, "admin": admin}),
        events,
    }
}

pub struct C28;

impl Scenario for C28 {
    fn property(&self) -> &'static str {
        "C28"
    }
    fn engine(&self) -> &'static str {
        "E5 idm single node"
    }
    fn budget(&self, tier: Tier) -> Budget {
        match tier {
            Tier::Quick => Budget { runs: 240, wall_cap_s: 60 },
            Tier::Thorough => Budget { runs: 40_000, wall_cap_s: 1500 },
        }
    }
    fn generate(&self, seed: u64, tier: Tier) -> Plan {
        gen_c28(seed, tier)
    }
    fn execute(&self, plan: &Plan) -> Outcome {
        execute_c28(plan)
    }
    fn rule(&self) -> String {
        "A run = one seeded stream of explicit events on a nanosecond simulated clock that only moves forward and sits on a coarse grid (+0, +1 ns, +0.5 s, 1 s -1 ns/exact/+1 ns, 3/5/10 s +1 ns, 11 s, next TOTP-step boundary -1 ns/exact/+1 ns, next UTC-day boundary -1 s/exact/+1 ns). Two of three runs boot a real in-memory kanidm IdmServer with 2-3 persons (password-only or password+TOTP primary created through a real credential update session; own POSIX password, primary-credential fallback through an account-policy group, or none) and drive auth (init, begin, cred as separately scheduled steps on up to 6 concurrently open sessions, and whole logins), auth_unix, auth_ldap, reauth_init on a delivered session, delayed-action delivery and administrator account_softlock_expire edits; one of three runs drives the bare CredSoftLock state machine (Password, Totp(30), Totp(60)) with 600-2000 events. Styles: mixed, password hammer (just past the longest delay until the 100th failure and beyond), TOTP hammer, day-boundary hunting. A run is non-trivial when at least one evaluated failure was followed by at least one refusal; distinct = distinct digests of (per credential: locked/unlockable/never failed, failures counted in windows, administrator clears used; open sessions).".into()
    }
    fn components(&self) -> J {
        json!({
            "real": ["kanidmd_lib IdmServer (auth session state machine, soft-lock map, auth_unix/auth_ldap/reauth paths, credential update session used to enrol TOTP)", "kanidmd_lib QueryServer + in-memory SQLite backend", "CredSoftLock state machine", "kanidm_lib_crypto (cheap test hashing policy)"],
            "stub": ["clock (every call takes the simulated time)", "delayed-action worker: the simulator delivers queued actions at explicit events", "OS entropy (seeded stream)"],
            "not_run": ["HTTP/LDAP wire layers", "webauthn/passkey and backup-code credentials", "restarts (soft locks are in memory by design)"]
        })
    }
    fn assumptions(&self) -> Vec<String> {
        vec![
            "the unlock time of a lock is the one the server itself holds for the credential (read through a test hook); the per-day / per-step bounds are checked independently of it".into(),
            "auth_unix/auth_ldap replies do not distinguish 'locked' from 'wrong': a wrong attempt counts as evaluated when the credential's lock record changed to a new lock during the call".into(),
            "an administrator soft-lock expiry edit entitles each credential of the account to one early clear at a time after the expiry value; accounts with any such edit are excluded from the per-window count bound".into(),
            "a lock whose unlock time lies beyond the end of its own counting window may end with the window (counted as probe lock-cut-by-window-reset, not as a violation)".into(),
            "sampled, not exhaustive".into(),
        ]
    }
}


// ================================================================================================
// C31 — weak or badlisted passwords can never be set
// ================================================================================================

const PW_MAX: usize = 128;

/// What the database says right now (read in one read transaction; independent of the IDM
/// layer's own policy resolution, of `memberof`, and of the cached badlist).
#[derive(Clone, Debug, PartialEq, Eq)]
struct PolState {
    min: u32,
    basis: &'static str,
}

struct Cu {
    a: usize,
    tok: CredentialUpdateSessionToken,
    /// pending (cleartext, graphemes, state at the time of the request)
    primary: Option<(String, u64, PolState, bool)>,
    unix: Option<(String, u64, PolState, bool)>,
    open_pol: PolState,
}

struct A31 {
    name: String,
    uuid: Uuid,
    /// last password we know to be stored (None: none, or unknown after a generated one)
    primary: Option<String>,
    unix: Option<String>,
}

struct N31 {
    idm: Option<Idm>,
    db: std::path::PathBuf,
    accts: Vec<A31>,
    groups: Vec<Uuid>,
    cus: BTreeMap<u64, Cu>,
    clock: u64,
    kinds: Vec<u64>,
    stored: u64,
    rejected: u64,
}

#[derive(Clone)]
struct CredView {
    id: Uuid,
    ts: OffsetDateTime,
}

fn ptext(v: &J) -> Vec<String> {
    v.as_array().map(|a| a.iter().filter_map(|x| x.as_str().map(|s| s.to_string())).collect()).unwrap_or_default()
}

impl N31 {
    fn idm(&self) -> &Idm {
        self.idm.as_ref().expect("node is up")
    }

    fn boot(&mut self) -> Result<(), String> {
        let ct = dur(self.clock);
        let qs = boot_qs(&NodeCfg::file(&self.db), ct).map_err(|e| herr("boot_qs", e))?;
        self.idm = Some(boot_idm(qs, ct).map_err(|e| herr("boot_idm", e))?);
        Ok(())
    }

    /// (effective minimum, badlist) from the database.
    fn db_state(&self, a: usize) -> Result<(PolState, BTreeSet<String>), String> {
        let mut pr = block(self.idm().idms.proxy_read()).map_err(|e| herr("proxy_read", e))?;
        let qs = &mut pr.qs_read;
        // groups the account is in: both built-in dynamic groups (every account here is a person)
        // plus the closure over the `member` values of the scenario's groups
        let mut inset: BTreeSet<Uuid> = BTreeSet::new();
        let mut members: BTreeMap<Uuid, BTreeSet<Uuid>> = BTreeMap::new();
        for g in &self.groups {
            let e = qs.internal_search_uuid(*g).map_err(|e| herr("search group", e))?;
            members.insert(*g, e.get_ava_refer(Attribute::Member).cloned().unwrap_or_default());
        }
        let mut frontier = vec![self.accts[a].uuid];
        while let Some(x) = frontier.pop() {
            for (g, ms) in &members {
                if ms.contains(&x) && inset.insert(*g) {
                    frontier.push(*g);
                }
            }
        }
        inset.insert(UUID_IDM_ALL_PERSONS);
        inset.insert(UUID_IDM_ALL_ACCOUNTS);
        let mut min = 10u32;
        let mut basis = "default10";
        let mut sfa = true;
        for g in &inset {
            let e = qs.internal_search_uuid(*g).map_err(|e| herr("search group", e))?;
            if !e.attribute_equality(Attribute::Class, &EntryClass::AccountPolicy.to_partialvalue()) {
                continue;
            }
            if let Some(m) = e.get_ava_single_uint32(Attribute::AuthPasswordMinimumLength) {
                if m > min {
                    min = m;
                    basis = "group-policy";
                }
            }
            if let Some(t) = e.get_ava_single_credential_type(Attribute::CredentialTypeMinimum) {
                if t >= CredentialType::Mfa {
                    sfa = false;
                }
            }
        }
        if sfa && min < 15 {
            min = 15;
            basis = "single-factor15";
        }
        let sc = qs.internal_search_uuid(UUID_SYSTEM_CONFIG).map_err(|e| herr("search system config", e))?;
        let bl: BTreeSet<String> = sc.get_ava_set(Attribute::BadlistPassword).map(|vs| vs.to_proto_string_clone_iter().collect()).unwrap_or_default();
        Ok((PolState { min, basis }, bl))
    }

    fn creds(&self, a: usize) -> Result<(Option<(CredView, Credential)>, Option<(CredView, Credential)>), String> {
        let mut pr = block(self.idm().idms.proxy_read()).map_err(|e| herr("proxy_read", e))?;
        let e = pr.qs_read.internal_search_uuid(self.accts[a].uuid).map_err(|e| herr("search", e))?;
        let f = |attr: Attribute| e.get_ava_single_credential(attr).map(|c| (CredView { id: hooks::credential_uuid(c), ts: c.timestamp() }, c.clone()));
        Ok((f(Attribute::PrimaryCredential), f(Attribute::UnixPassword)))
    }
}

fn same_cred(a: &Option<(CredView, Credential)>, b: &Option<(CredView, Credential)>) -> bool {
    match (a, b) {
        (None, None) => true,
        (Some((x, _)), Some((y, _))) => x.id == y.id && x.ts == y.ts,
        _ => false,
    }
}

fn verifies(c: &Option<(CredView, Credential)>, pw: &str) -> bool {
    match c {
        Some((_, c)) => c.password_ref().ok().and_then(|p| p.verify(pw).ok()).unwrap_or(false),
        None => false,
    }
}

struct StoreCheck<'a> {
    path: &'a str,
    pw: &'a str,
    g: u64,
    /// state when the session was opened / when the request was made (None for direct paths)
    earlier: Option<(&'a PolState, &'a PolState, bool)>,
    now: &'a PolState,
    badlist: &'a BTreeSet<String>,
}

/// The one-sided oracle: a password that has just been stored must satisfy the rules.
fn check_stored(out: &mut Outcome, step: usize, c: StoreCheck) {
    let g = c.g as usize;
    let bytes = c.pw.len();
    let min = c.now.min as usize;
    if bytes > 3 * g.max(1) {
        out.probe("stored-multibyte-password");
    }
    if g == min {
        out.probe("stored-exactly-minimum");
    }
    if g == PW_MAX {
        out.probe("stored-exactly-maximum");
    }
    if g < min {
        let when = match c.earlier {
            Some((open, req, _)) if (g as u32) >= open.min || (g as u32) >= req.min => "state-changed-during-session",
            _ => "always",
        };
        let cause = if bytes < min { "shorter-in-characters-and-bytes" } else { "shorter-in-characters-only" };
        let sig = if when == "always" {
            format!("path={}; rule=min-length; basis={}; when=always; cause={cause}", c.path, c.now.basis)
        } else {
            format!("path={}; rule=min-length; when={when}", c.path)
        };
        out.violate(
            "C31",
            "stored-password-rules",
            &sig,
            format!("{} stored a password of {} graphemes / {} bytes; effective minimum at that transaction is {} ({})", c.path, g, bytes, min, c.now.basis),
            step,
        );
    }
    if g > PW_MAX {
        out.violate(
            "C31",
            "stored-password-rules",
            &format!("path={}; rule=max-length", c.path),
            format!("{} stored a password of {} graphemes / {} bytes; maximum is {}", c.path, g, bytes, PW_MAX),
            step,
        );
    }
    let low = c.pw.to_lowercase();
    if c.badlist.contains(&low) {
        let when = match c.earlier {
            Some((_, _, false)) => "state-changed-during-session",
            _ => "always",
        };
        let case = if low == c.pw { "exact" } else { "folded" };
        out.violate(
            "C31",
            "stored-password-rules",
            &format!("path={}; rule=badlist; case={case}; when={when}", c.path),
            format!("{} stored a password whose lower-case form is in the system badlist ({} entries)", c.path, c.badlist.len()),
            step,
        );
    }
}

impl N31 {
    fn apply(&mut self, out: &mut Outcome, step: usize, ev: &J) -> Result<String, String> {
        let op = js(ev, "op");
        let na = self.accts.len().max(1);
        let a = (ju(ev, "a") as usize) % na;
        let ct = dur(self.clock);
        match op {
            "adv" => {
                self.clock = self.clock.max(ju(ev, "to"));
                Ok("ok".into())
            }
            "restart" => {
                self.idm = None;
                self.cus.clear();
                self.boot()?;
                out.fault("restart");
                Ok("ok".into())
            }
            "policy" => {
                let target = match js(ev, "g") {
                    "allp" => UUID_IDM_ALL_PERSONS,
                    "alla" => UUID_IDM_ALL_ACCOUNTS,
                    _ => self.groups[(ju(ev, "gi") as usize) % self.groups.len()],
                };
                let mut mods = vec![Modify::Present(Attribute::Class, EntryClass::AccountPolicy.to_value())];
                match ev.get("min") {
                    Some(J::Null) => mods.push(Modify::Purged(Attribute::AuthPasswordMinimumLength)),
                    Some(x) if x.is_u64() => {
                        mods.push(Modify::Purged(Attribute::AuthPasswordMinimumLength));
                        mods.push(Modify::Present(Attribute::AuthPasswordMinimumLength, Value::Uint32(x.as_u64().unwrap_or(0) as u32)));
                    }
                    _ => {}
                }
                match js(ev, "ctype") {
                    "any" => {
                        mods.push(Modify::Purged(Attribute::CredentialTypeMinimum));
                        mods.push(Modify::Present(Attribute::CredentialTypeMinimum, CredentialType::Any.into()));
                    }
                    "mfa" => {
                        mods.push(Modify::Purged(Attribute::CredentialTypeMinimum));
                        mods.push(Modify::Present(Attribute::CredentialTypeMinimum, CredentialType::Mfa.into()));
                    }
                    "unset" => mods.push(Modify::Purged(Attribute::CredentialTypeMinimum)),
                    _ => {}
                }
                let mut w = block(self.idm().idms.proxy_write(ct)).map_err(|e| herr("proxy_write", e))?;
                let r = w.qs_write.internal_modify_uuid(target, &ModifyList::new_list(mods));
                if r.is_ok() {
                    w.commit().map_err(|e| herr("commit", e))?;
                    out.fault("policy-change");
                }
                Ok(format!("{}", r.is_ok()))
            }
            "member" => {
                let g = self.groups[(ju(ev, "gi") as usize) % self.groups.len()];
                let m = if js(ev, "kind") == "grp" { self.groups[(ju(ev, "m") as usize) % self.groups.len()] } else { self.accts[(ju(ev, "m") as usize) % na].uuid };
                let ml = if jb(ev, "add") { ModifyList::new_append(Attribute::Member, Value::Refer(m)) } else { ModifyList::new_remove(Attribute::Member, PartialValue::Refer(m)) };
                let mut w = block(self.idm().idms.proxy_write(ct)).map_err(|e| herr("proxy_write", e))?;
                let r = w.qs_write.internal_modify_uuid(g, &ml);
                if r.is_ok() {
                    w.commit().map_err(|e| herr("commit", e))?;
                    out.fault("membership-change");
                }
                Ok(format!("{}", r.is_ok()))
            }
            "badlist" => {
                let mut mods = vec![];
                for s in ptext(&ev["add"]) {
                    mods.push(Modify::Present(Attribute::BadlistPassword, Value::new_iutf8(&s)));
                }
                for s in ptext(&ev["del"]) {
                    mods.push(Modify::Removed(Attribute::BadlistPassword, PartialValue::new_iutf8(&s)));
                }
                let mut w = block(self.idm().idms.proxy_write(ct)).map_err(|e| herr("proxy_write", e))?;
                let r = w.qs_write.internal_modify_uuid(UUID_SYSTEM_CONFIG, &ModifyList::new_list(mods));
                if r.is_ok() {
                    w.commit().map_err(|e| herr("commit", e))?;
                    out.fault("badlist-change");
                }
                Ok(format!("{}", r.is_ok()))
            }
            "cu_open" => {
                let (pol, _) = self.db_state(a)?;
                let mut w = block(self.idm().idms.proxy_write(ct)).map_err(|e| herr("proxy_write", e))?;
                let e = w.qs_write.internal_search_uuid(self.accts[a].uuid).map_err(|e| herr("search", e))?;
                let r = w.init_credential_update(&InitCredentialUpdateEvent::new(Identity::from_impersonate_entry_readwrite(e), self.accts[a].uuid), ct);
                match r {
                    Ok((tok, _)) => {
                        w.commit().map_err(|e| herr("commit", e))?;
                        self.cus.insert(ju(ev, "slot"), Cu { a, tok, primary: None, unix: None, open_pol: pol });
                        Ok("open".into())
                    }
                    Err(e) => Ok(format!("err:{e:?}")),
                }
            }
            "cu_pw" | "cu_unix" => {
                let slot = ju(ev, "slot");
                let Some(cu) = self.cus.get(&slot) else { return Ok("no-slot".into()) };
                let ca = cu.a;
                let (pol, bl) = self.db_state(ca)?;
                let pw = js(ev, "pw").to_string();
                let g = ju(ev, "g");
                let listed = bl.contains(&pw.to_lowercase());
                if listed {
                    out.probe("candidate-was-badlisted-at-request");
                }
                let r = {
                    let cutxn = block(self.idm().idms.cred_update_transaction()).map_err(|e| herr("cu txn", e))?;
                    let cu = self.cus.get(&slot).expect("slot");
                    if op == "cu_pw" {
                        cutxn.credential_primary_set_password(&cu.tok, ct, &pw)
                    } else {
                        cutxn.credential_unix_set_password(&cu.tok, ct, &pw)
                    }
                };
                let cu = self.cus.get_mut(&slot).expect("slot");
                match r {
                    Ok(_) => {
                        let pend = Some((pw, g, pol, listed));
                        if op == "cu_pw" {
                            cu.primary = pend;
                        } else {
                            cu.unix = pend;
                        }
                        out.probe("session-set-accepted");
                        Ok("accepted".into())
                    }
                    Err(OperationError::PasswordQuality(f)) => {
                        self.rejected += 1;
                        let k = format!("{f:?}");
                        let kind = if k.contains("TooShort") {
                            "too-short"
                        } else if k.contains("TooLong") {
                            "too-long"
                        } else if k.contains("BadListed") {
                            "badlisted"
                        } else {
                            "quality-feedback"
                        };
                        out.probe(&format!("rejected-{kind}"));
                        Ok(format!("rejected:{kind}"))
                    }
                    Err(e) => Ok(format!("err:{e:?}")),
                }
            }
            "cu_totp" => {
                let slot = ju(ev, "slot");
                let Some(cu) = self.cus.get(&slot) else { return Ok("no-slot".into()) };
                let cutxn = block(self.idm().idms.cred_update_transaction()).map_err(|e| herr("cu txn", e))?;
                let st = match cutxn.credential_primary_init_totp(&cu.tok, ct) {
                    Ok(st) => st,
                    Err(e) => return Ok(format!("err:{e:?}")),
                };
                let totp: Option<Totp> = match st.mfaregstate() {
                    MfaRegStateStatus::TotpCheck(secret) => secret.clone().try_into().ok(),
                    _ => None,
                };
                let Some(totp) = totp else { return Ok("no-totp".into()) };
                let code = totp.do_totp_duration_from_epoch(&ct).map_err(|e| herr("totp", e))?;
                Ok(match cutxn.credential_primary_check_totp(&cu.tok, ct, code, "totp") {
                    Ok(_) => "totp-added".into(),
                    Err(e) => format!("err:{e:?}"),
                })
            }
            "cu_cancel" => {
                let Some(cu) = self.cus.remove(&ju(ev, "slot")) else { return Ok("no-slot".into()) };
                let mut w = block(self.idm().idms.proxy_write(ct)).map_err(|e| herr("proxy_write", e))?;
                let r = w.cancel_credential_update(&cu.tok, ct);
                if r.is_ok() {
                    w.commit().map_err(|e| herr("commit", e))?;
                }
                Ok(format!("{}", r.is_ok()))
            }
            "cu_commit" => {
                let Some(cu) = self.cus.remove(&ju(ev, "slot")) else { return Ok("no-slot".into()) };
                let ca = cu.a;
                let (bp, bu) = self.creds(ca)?;
                let r = {
                    let mut w = block(self.idm().idms.proxy_write(ct)).map_err(|e| herr("proxy_write", e))?;
                    match w.commit_credential_update(&cu.tok, ct) {
                        Ok(()) => w.commit().map_err(|e| format!("{e:?}")),
                        Err(e) => Err(format!("{e:?}")),
                    }
                };
                let (ap, au) = self.creds(ca)?;
                let (pol, bl) = self.db_state(ca)?;
                match r {
                    Ok(()) => {
                        for (path, pend, before, after, is_primary) in [("cu-primary", &cu.primary, &bp, &ap, true), ("cu-unix", &cu.unix, &bu, &au, false)] {
                            if let Some((pw, g, req_pol, listed)) = pend {
                                if verifies(after, pw) && (!same_cred(before, after) || !verifies(before, pw)) {
                                    self.stored += 1;
                                    out.probe(&format!("stored-via-{path}"));
                                    check_stored(out, step, StoreCheck { path, pw, g: *g, earlier: Some((&cu.open_pol, req_pol, *listed)), now: &pol, badlist: &bl });
                                }
                            }
                            // refresh what we believe is stored
                            let bel = if is_primary { &mut self.accts[ca].primary } else { &mut self.accts[ca].unix };
                            let pend_pw = pend.as_ref().map(|p| p.0.clone());
                            *bel = match (after, pend_pw, bel.clone()) {
                                (None, _, _) => None,
                                (Some(_), Some(p), _) if verifies(after, &p) => Some(p),
                                (Some(_), _, Some(o)) if verifies(after, &o) => Some(o),
                                _ => None,
                            };
                        }
                        Ok("committed".into())
                    }
                    Err(e) => {
                        if !same_cred(&bp, &ap) || !same_cred(&bu, &au) {
                            out.violate("C31", "failed-set-unchanged", "path=cu-commit; a refused commit changed a stored credential", format!("commit failed with {e} but the stored credentials differ"), step);
                        }
                        out.probe("commit-refused");
                        Ok(format!("refused:{}", e.split('(').next().unwrap_or("")))
                    }
                }
            }
            "unix_direct" => {
                let pw = js(ev, "pw").to_string();
                let g = ju(ev, "g");
                let (_, bu) = self.creds(a)?;
                let r = {
                    let mut w = block(self.idm().idms.proxy_write(ct)).map_err(|e| herr("proxy_write", e))?;
                    let pce = UnixPasswordChangeEvent::from_parts(hooks::identity_internal(), self.accts[a].uuid, pw.clone()).map_err(|e| herr("pce", e))?;
                    match w.set_unix_account_password(&pce) {
                        Ok(()) => w.commit().map_err(|e| format!("{e:?}")),
                        Err(e) => Err(format!("{e:?}")),
                    }
                };
                let (_, au) = self.creds(a)?;
                let (pol, bl) = self.db_state(a)?;
                match r {
                    Ok(()) => {
                        if verifies(&au, &pw) && (!same_cred(&bu, &au) || !verifies(&bu, &pw)) {
                            self.stored += 1;
                            out.probe("stored-via-unix-direct");
                            check_stored(out, step, StoreCheck { path: "unix-direct", pw: &pw, g, earlier: None, now: &pol, badlist: &bl });
                            self.accts[a].unix = Some(pw);
                        }
                        Ok("set".into())
                    }
                    Err(e) => {
                        self.rejected += 1;
                        if !same_cred(&bu, &au) {
                            out.violate("C31", "failed-set-unchanged", "path=unix-direct; a refused change altered the stored credential", format!("set_unix_account_password failed with {e} but the stored credential differs"), step);
                        }
                        if let Some(old) = &self.accts[a].unix {
                            if !verifies(&au, old) {
                                out.violate("C31", "failed-set-unchanged", "path=unix-direct; old password no longer verifies after a refused change", format!("after {e}"), step);
                            }
                        }
                        let kind = if e.contains("TooShort") {
                            "too-short"
                        } else if e.contains("TooLong") {
                            "too-long"
                        } else if e.contains("BadListed") {
                            "badlisted-or-weak"
                        } else {
                            "other"
                        };
                        out.probe(&format!("direct-rejected-{kind}"));
                        Ok(format!("refused:{kind}"))
                    }
                }
            }
            "recover" => {
                let (pol, _) = self.db_state(a)?;
                let mut w = block(self.idm().idms.proxy_write(ct)).map_err(|e| herr("proxy_write", e))?;
                let r = w.recover_account(&self.accts[a].name, None);
                match r {
                    Ok(pw) => {
                        w.commit().map_err(|e| herr("commit", e))?;
                        out.probe("recover-account");
                        // outside the statement's two request kinds: recorded, not judged
                        if pw.chars().count() < pol.min as usize {
                            out.probe("recover-generated-password-below-policy-minimum");
                        }
                        self.accts[a].primary = Some(pw);
                        Ok("recovered".into())
                    }
                    Err(e) => Ok(format!("err:{e:?}")),
                }
            }
            "verify" => {
                // the password we believe is stored must be the one that authenticates
                let (p, u) = self.creds(a)?;
                if let Some(pw) = &self.accts[a].primary {
                    if !verifies(&p, pw) {
                        out.violate("C31", "failed-set-unchanged", "path=verify; last successfully stored primary password no longer verifies", format!("account {}", self.accts[a].name), step);
                    }
                }
                let Some(pw) = self.accts[a].unix.clone() else { return Ok("no-unix".into()) };
                if u.is_none() {
                    return Ok("no-unix".into());
                }
                let mut au = block(self.idm().idms.auth()).map_err(|e| herr("auth txn", e))?;
                let uae = UnixUserAuthEvent::from_parts(hooks::identity_internal(), self.accts[a].uuid, pw).map_err(|e| herr("uae", e))?;
                let r = block(au.auth_unix(&uae, ct));
                au.commit().map_err(|e| herr("auth commit", e))?;
                match r {
                    Ok(Some(_)) => {
                        out.probe("real-auth-unix-ok");
                        Ok("auth-ok".into())
                    }
                    Ok(None) => {
                        out.violate("C31", "failed-set-unchanged", "path=verify; last successfully stored POSIX password is refused by auth_unix", format!("account {}", self.accts[a].name), step);
                        Ok("auth-refused".into())
                    }
                    Err(e) => Ok(format!("err:{e:?}")),
                }
            }
            _ => Ok("unknown".into()),
        }
    }
}

const C31_PROBES: [&str; 22] = [
    "commit-refused",
    "direct-rejected-other",
    "session-set-accepted",
    "stored-via-cu-primary",
    "stored-via-cu-unix",
    "stored-via-unix-direct",
    "stored-exactly-minimum",
    "stored-exactly-maximum",
    "stored-multibyte-password",
    "rejected-too-short",
    "rejected-too-long",
    "rejected-badlisted",
    "rejected-quality-feedback",
    "direct-rejected-too-short",
    "direct-rejected-too-long",
    "direct-rejected-badlisted-or-weak",
    "recover-account",
    "recover-generated-password-below-policy-minimum",
    "real-auth-unix-ok",
    "stored-under-group-policy-minimum",
    "stored-after-restart",
    "candidate-was-badlisted-at-request",
];

fn execute_c31(plan: &Plan) -> Outcome {
    let mut out = Outcome::default();
    for p in C31_PROBES {
        out.probe0(p);
    }
    let scratch = Scratch::new(&format!("c31-{:x}", plan.seed));
    entropy::swap_stream(Some(Rng::new(plan.seed ^ 0x31_5e70)));
    let start = ju(&plan.cfg, "start");
    let mut n = N31 { idm: None, db: scratch.path().join("kanidm.db"), accts: vec![], groups: vec![], cus: BTreeMap::new(), clock: start, kinds: vec![], stored: 0, rejected: 0 };
    let setup = (|| -> Result<(), String> {
        n.boot()?;
        let ct = dur(start);
        let mut ents = vec![];
        for (i, a) in plan.cfg["accounts"].as_array().cloned().unwrap_or_default().iter().enumerate() {
            let u = Uuid::parse_str(js(a, "uuid")).map_err(|e| herr("uuid", e))?;
            ents.push(person(u, js(a, "name"), Some(3100 + i as u32)));
            n.accts.push(A31 { name: js(a, "name").to_string(), uuid: u, primary: Some(js(a, "pw").to_string()), unix: None });
        }
        for g in plan.cfg["groups"].as_array().cloned().unwrap_or_default().iter() {
            let u = Uuid::parse_str(js(g, "uuid")).map_err(|e| herr("uuid", e))?;
            ents.push(group(u, js(g, "name")));
            n.groups.push(u);
        }
        let mut w = block(n.idm().idms.proxy_write(ct)).map_err(|e| herr("proxy_write", e))?;
        w.qs_write.internal_create(ents).map_err(|e| herr("create", e))?;
        // every account starts with a (strong) password-only primary credential written directly,
        // so that a session which only touches the POSIX password is committable
        let p = CryptoPolicy::minimum();
        for a in n.accts.iter() {
            let c = Credential::new_password_only(&p, a.primary.as_deref().unwrap_or(""), OffsetDateTime::UNIX_EPOCH).map_err(|e| herr("cred", e))?;
            let ml = ModifyList::new_list(vec![Modify::Present(Attribute::PrimaryCredential, Value::new_credential("primary", c))]);
            w.qs_write.internal_modify_uuid(a.uuid, &ml).map_err(|e| herr("modify", e))?;
        }
        w.commit().map_err(|e| herr("commit", e))
    })();
    if let Err(e) = setup {
        entropy::swap_stream(None);
        out.harness_error = Some(format!("setup: {e}"));
        return out;
    }
    if n.accts.is_empty() || n.groups.is_empty() {
        entropy::swap_stream(None);
        out.harness_error = Some("cfg without accounts or groups".into());
        return out;
    }
    let mut restarted = false;
    for (i, ev) in plan.events.iter().enumerate() {
        let id = ev.get("id").and_then(|x| x.as_u64()).unwrap_or(i as u64);
        entropy::swap_stream(Some(Rng::new(plan.seed ^ id.wrapping_mul(K))));
        let stored_before = n.stored;
        match n.apply(&mut out, i, ev) {
            Ok(label) => {
                let l = format!("{}:{}", js(ev, "op"), label);
                out.chain(fnv64(l.as_bytes()) ^ n.clock);
                let coarse: String = l.splitn(3, ':').take(2).collect::<Vec<_>>().join(":");
                n.kinds.push(fnv64(coarse.as_bytes()));
            }
            Err(e) => {
                out.harness_error = Some(format!("event {i} ({}): {e}", js(ev, "op")));
                break;
            }
        }
        if js(ev, "op") == "restart" {
            restarted = true;
        }
        if n.stored > stored_before && restarted {
            out.probe("stored-after-restart");
        }
        // state digest: policy per account, badlist size, what is believed stored, open sessions
        let mut s = String::new();
        for a in 0..n.accts.len() {
            if let Ok((p, bl)) = n.db_state(a) {
                s.push_str(&format!("{}:{}:{}:{}:{};", p.min, p.basis, bl.len(), n.accts[a].primary.is_some(), n.accts[a].unix.is_some()));
                if n.stored > stored_before && p.basis == "group-policy" {
                    out.probe("stored-under-group-policy-minimum");
                }
            }
        }
        s.push_str(&format!("{}", n.cus.len()));
        out.states.push(fnv64(s.as_bytes()));
        out.events_run += 1;
    }
    entropy::swap_stream(None);
    for w in n.kinds.windows(3) {
        out.trigrams.push(w[0].rotate_left(7) ^ w[1].rotate_left(3) ^ w[2]);
    }
    out.trigrams.sort();
    out.trigrams.dedup();
    out.states.sort();
    out.states.dedup();
    out.sim_secs = (n.clock - start) as f64 / NS as f64;
    out.nontrivial = n.stored >= 1 && n.rejected >= 1;
    drop(n);
    drop(scratch);
    out
}

// ---- C31 generator -----------------------------------------------------------------------------

/// One user-perceived character each (grapheme cluster), with different byte / scalar lengths.
const UNITS_MB: [&str; 7] = ["é", "e\u{301}", "ß", "ö", "👩\u{200d}👩\u{200d}👧", "🇦🇺", "Ж"];

fn candidate(r: &mut Rng, g: usize, flavour: u64) -> String {
    let mut s = String::new();
    for i in 0..g {
        let mb = match flavour {
            0 => false,
            1 => r.chance(1, 5),
            _ => i % 2 == 1 || r.chance(1, 2),
        };
        if mb {
            s.push_str(*r.pick(&UNITS_MB));
        } else {
            s.push(ALNUM[r.below(ALNUM.len() as u64) as usize] as char);
        }
    }
    s
}

fn flip_case(r: &mut Rng, s: &str) -> String {
    s.chars()
        .flat_map(|c| {
            if r.chance(1, 2) {
                c.to_uppercase().collect::<Vec<_>>()
            } else {
                vec![c]
            }
        })
        .collect()
}

fn gen_c31(seed: u64, tier: Tier) -> Plan {
    let mut k = Rng::stream(seed, "knobs");
    let mut r = Rng::stream(seed, "events");
    let start = (BASE_S + k.below(50_000)) * NS;
    let na = 2 + k.below(2) as usize;
    let ng = 2 + k.below(3) as usize;
    let accounts: Vec<J> = (0..na).map(|i| json!({"name": format!("c31user{i}"), "uuid": uuid_for(5, 3100 + i as u64).to_string(), "pw": strong(&mut k, 24)})).collect();
    let groups: Vec<J> = (0..ng).map(|i| json!({"name": format!("c31group{i}"), "uuid": uuid_for(6, 3150 + i as u64).to_string()})).collect();
    let n = match tier {
        Tier::Quick => 60 + k.below(50),
        Tier::Thorough => 100 + k.below(200),
    } as usize;
    let mut events: Vec<J> = vec![];
    let mut id = 0u64;
    let mut push = |events: &mut Vec<J>, mut e: J| {
        id += 1;
        e["id"] = json!(id);
        events.push(e);
    };
    let mut now = start;
    // bounds the generator aims at: built-in ones plus every minimum it has tried to set
    let mut bounds: Vec<u64> = vec![10, 15, 128];
    let mut badlist: Vec<String> = vec![];
    let mut open: Vec<u64> = vec![];
    // many runs start by allowing single-factor credentials, otherwise a bare password primary
    // can never be committed
    if k.chance(1, 2) {
        push(&mut events, json!({"op": "policy", "g": "allp", "ctype": *k.pick(&["any", "unset"])}));
    }
    let w: [u32; 14] = [10, 8, 8, 6, 10, 14, 10, 5, 12, 2, 12, 3, 4, 6];
    while events.len() < n {
        if r.chance(1, 3) {
            now += match r.below(10) {
                0..=5 => (1 + r.below(20)) * NS,
                6..=8 => (60 + r.below(300)) * NS,
                _ => 1000 * NS,
            };
            push(&mut events, json!({"op": "adv", "to": now}));
        }
        let a = r.below(na as u64);
        let mkpw = |r: &mut Rng, bounds: &Vec<u64>, badlist: &Vec<String>| -> (String, u64) {
            if !badlist.is_empty() && r.chance(1, 4) {
                let b = r.pick(badlist).clone();
                let s = if r.chance(1, 4) { b } else { flip_case(r, &b) };
                // badlist entries are built from single-scalar units only, so graphemes = scalars
                let g = s.chars().count() as u64;
                return (s, g);
            }
            let b = *r.pick(bounds) as i64;
            let g = (b + *r.pick(&[-2i64, -1, -1, 0, 0, 1, 1, 3])).max(1) as usize;
            let fl = r.below(3);
            (candidate(r, g, fl), g as u64)
        };
        match r.pick_weighted(&w) {
            0 => {
                let min = match r.below(8) {
                    0 => None,
                    1 => Some(r.range(1, 9)),
                    2 => Some(10),
                    3 => Some(15),
                    4 => Some(r.range(11, 14)),
                    5 => Some(r.range(16, 30)),
                    6 => Some(r.range(31, 60)),
                    _ => Some(r.range(12, 24)),
                };
                if let Some(m) = min {
                    if !bounds.contains(&m) {
                        bounds.push(m);
                    }
                }
                let g = match r.below(6) {
                    0 => "allp",
                    1 => "alla",
                    _ => "grp",
                };
                let ctype = *r.pick(&["", "", "", "any", "mfa", "unset"]);
                push(&mut events, json!({"op": "policy", "g": g, "gi": r.below(ng as u64), "min": min, "ctype": ctype}));
            }
            1 => push(&mut events, json!({"op": "member", "gi": r.below(ng as u64), "kind": "acct", "m": a, "add": r.chance(3, 4)})),
            2 => push(&mut events, json!({"op": "member", "gi": r.below(ng as u64), "kind": "grp", "m": r.below(ng as u64), "add": r.chance(3, 4)})),
            3 => {
                let mut add = vec![];
                let mut del = vec![];
                for _ in 0..(1 + r.below(2)) {
                    let b = *r.pick(&bounds) as usize;
                    let g = (b + r.below(3) as usize).clamp(10, 40);
                    // single-scalar units only (so that case flips keep one grapheme per scalar)
                    let s: String = (0..g)
                        .map(|_| if r.chance(1, 6) { *r.pick(&['é', 'ö', 'ж', 'ñ']) } else { ALNUM[r.below(ALNUM.len() as u64) as usize] as char })
                        .collect();
                    let s = if r.chance(1, 2) { s.to_lowercase() } else { s };
                    badlist.push(s.clone());
                    add.push(s);
                }
                if badlist.len() > 2 && r.chance(1, 4) {
                    let i = r.below(badlist.len() as u64) as usize;
                    del.push(badlist.remove(i));
                }
                push(&mut events, json!({"op": "badlist", "add": add, "del": del}));
            }
            4 => {
                let slot = r.below(3);
                if !open.contains(&slot) {
                    open.push(slot);
                }
                push(&mut events, json!({"op": "cu_open", "a": a, "slot": slot}));
                // usually go on immediately: one to three requests, sometimes TOTP, often the commit
                for _ in 0..r.below(4) {
                    let (pw, g) = mkpw(&mut r, &bounds, &badlist);
                    let op = if r.chance(1, 2) { "cu_pw" } else { "cu_unix" };
                    push(&mut events, json!({"op": op, "slot": slot, "pw": pw, "g": g}));
                }
                if r.chance(1, 2) {
                    push(&mut events, json!({"op": "cu_totp", "slot": slot}));
                }
                if r.chance(1, 2) {
                    open.retain(|s| *s != slot);
                    push(&mut events, json!({"op": "cu_commit", "slot": slot}));
                }
            }
            5 | 6 => {
                let slot = if open.is_empty() || r.chance(1, 10) { r.below(3) } else { *r.pick(&open) };
                let (pw, g) = mkpw(&mut r, &bounds, &badlist);
                let op = if r.chance(1, 2) { "cu_pw" } else { "cu_unix" };
                push(&mut events, json!({"op": op, "slot": slot, "pw": pw, "g": g}));
            }
            7 => {
                let slot = if open.is_empty() { r.below(3) } else { *r.pick(&open) };
                push(&mut events, json!({"op": "cu_totp", "slot": slot}));
            }
            8 => {
                let slot = if open.is_empty() { r.below(3) } else { *r.pick(&open) };
                open.retain(|s| *s != slot);
                push(&mut events, json!({"op": "cu_commit", "slot": slot}));
            }
            9 => {
                let slot = if open.is_empty() { r.below(3) } else { *r.pick(&open) };
                open.retain(|s| *s != slot);
                push(&mut events, json!({"op": "cu_cancel", "slot": slot}));
            }
            10 => {
                let (pw, g) = mkpw(&mut r, &bounds, &badlist);
                push(&mut events, json!({"op": "unix_direct", "a": a, "pw": pw, "g": g}));
            }
            11 => push(&mut events, json!({"op": "recover", "a": a})),
            12 => {
                open.clear();
                push(&mut events, json!({"op": "restart"}));
            }
            _ => push(&mut events, json!({"op": "verify", "a": a})),
        }
    }
    Plan { property: "C31".into(), seed, cfg: json!({"start": start, "accounts": accounts, "groups": groups}), events }
}

pub struct C31;

impl Scenario for C31 {
    fn property(&self) -> &'static str {
        "C31"
    }
    fn engine(&self) -> &'static str {
        "E5 idm single node"
    }
    fn budget(&self, tier: Tier) -> Budget {
        match tier {
            Tier::Quick => Budget { runs: 300, wall_cap_s: 60 },
            Tier::Thorough => Budget { runs: 30_000, wall_cap_s: 1500 },
        }
    }
    fn generate(&self, seed: u64, tier: Tier) -> Plan {
        gen_c31(seed, tier)
    }
    fn execute(&self, plan: &Plan) -> Outcome {
        execute_c31(plan)
    }
    fn rule(&self) -> String {
        "A run = a file-backed kanidm node (real IdmServer, SQLite on /dev/shm) with 2-3 POSIX persons and 2-4 groups, and 60-110 explicit events: account-policy edits (auth_password_minimum_length 1..60 or unset, credential_type_minimum any/mfa/unset) on the scenario's groups and on the built-in idm_all_persons / idm_all_accounts, direct and nested membership edits, system badlist additions/removals, restarts, clock advances (seconds to beyond the 900 s session lifetime), and password settings through a credential update session (primary password, POSIX password, TOTP enrolment, commit, cancel; up to three sessions open concurrently so that policy can change between request and commit) and through set_unix_account_password, plus recover_account and a verification of the passwords believed stored (database hash check and a real auth_unix). Candidate passwords sit at bound-2..bound+3 user-perceived characters for every bound in play (10, 15, 128, each minimum the run sets), in ASCII, lightly multi-byte and heavily multi-byte alphabets (precomposed and combining accents, ZWJ emoji, flags), or are badlist members in random letter case. Non-trivial = at least one password was stored and at least one was rejected; distinct = distinct digests of (effective minimum and its basis per account, badlist size, which credentials exist, open sessions).".into()
    }
    fn components(&self) -> J {
        json!({
            "real": ["kanidmd_lib IdmServer: credential update sessions, set_unix_account_password, recover_account, auth_unix", "kanidmd_lib QueryServer, memberof/dyngroup plugins, system-config reload, file-backed SQLite backend with restart", "zxcvbn quality scoring as compiled into kanidmd_lib"],
            "stub": ["clock", "OS entropy (seeded stream)"],
            "not_run": ["HTTP layer / SCIM credential import (bypasses quality by design)", "intent-token exchange (sessions are opened directly by the account holder)", "replication of policy from another server"]
        })
    }
    fn assumptions(&self) -> Vec<String> {
        vec![
            "length means user-perceived characters (grapheme clusters), which is what the credential update session counts; candidates are built from units that are one cluster each, so the count is known by construction".into(),
            "effective minimum = max(10, every auth_password_minimum_length on an account_policy group the account belongs to directly, through nesting, or through the two built-in dynamic groups), raised to 15 when no such group demands at least MFA; computed by the harness from group `member` values and policy attributes read from the database in the checking transaction".into(),
            "the badlist is the badlist_password values of the system config entry as stored (lower case), compared with the lower-cased candidate".into(),
            "a rejection is never a violation (quality scoring and related-input checks may reject more)".into(),
            "recover_account (administrator break-glass, server-generated 48 character password) is executed and recorded but not judged: it is neither of the two request kinds in the statement".into(),
        ]
    }
}

pub fn scenarios() -> Vec<Box<dyn Scenario>> {
    vec![Box::new(C28), Box::new(C31)]
}
