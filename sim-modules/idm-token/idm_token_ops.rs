// ---- event execution (included into idm_token.rs) ------------------------------------------------

fn cai() -> ClientAuthInfo {
    ClientAuthInfo::new(Source::Internal, None, None, None)
}
fn cai_tok(j: &JwsCompact) -> ClientAuthInfo {
    ClientAuthInfo::new(Source::Internal, None, Some(j.clone()), None)
}
fn odt(secs: u64) -> time::OffsetDateTime {
    time::OffsetDateTime::UNIX_EPOCH + Duration::from_secs(secs)
}

impl Engine {
    /// One committed IDM write transaction on node 0 at the current simulated time.
    fn w0<R>(&mut self, f: impl FnOnce(&mut IdmServerProxyWriteTransaction<'_>, Duration) -> Result<R, OperationError>) -> Result<R, OperationError> {
        let idms = self.idms(0).ok_or(OperationError::InvalidState)?;
        let ct = self.ct();
        let mut w = block(idms.proxy_write(ct))?;
        let r = f(&mut w, ct)?;
        w.commit()?;
        Ok(r)
    }

    /// Some(primary credential uuid or None) of a live account, None when the entry is not found.
    fn db_primary_cred(&mut self, acct: Uuid) -> Option<Option<Uuid>> {
        let idms = self.idms(0)?;
        let mut r = block(idms.proxy_read()).ok()?;
        let e = r.qs_read.internal_search_uuid(acct).ok()?;
        Some(e.get_ava_single_credential(Attribute::PrimaryCredential).map(|c| kanidm_proto::internal::CredentialDetail::from(c).uuid))
    }

    fn register_uat(&mut self, slot: u64, jws: JwsCompact, origin: Origin, acct: Option<usize>, window: u64) -> Result<UserAuthToken, String> {
        let payload = jws_payload(&jws).ok_or("token payload not decodable")?;
        let uat: UserAuthToken = serde_json::from_slice(&payload).map_err(|e| format!("token is not a UAT: {e}"))?;
        let kid = jws.kid().unwrap_or("").to_string();
        self.toks.insert(
            slot,
            Tok {
                jws,
                kid,
                origin,
                acct,
                acct_uuid: uat.uuid,
                session: uat.session_id,
                issued: odt_secs(&uat.issued_at) as u64,
                expiry: uat.expiry.as_ref().map(odt_secs),
                auth_time: self.now,
                window,
                compact: false,
            },
        );
        Ok(uat)
    }

    fn op_cu_commit(&mut self, cu: u64) -> String {
        let Some((cust, a)) = self.cus.remove(&cu) else { return "no-session".into() };
        let uuid = self.led.accts[a].uuid;
        let before = self.db_primary_cred(uuid);
        let r = self.w0(|w, ct| w.commit_credential_update(&cust, ct));
        if let Err(e) = r {
            return format!("err {e:?}");
        }
        self.led.accts[a].generated = false;
        self.cred_changed(a, before, "credential-update commit")
    }

    /// A committed change may have replaced/removed the primary credential of account a:
    /// update the ledger from what the database now holds and apply the C36 commit rule.
    fn cred_changed(&mut self, a: usize, before: Option<Option<Uuid>>, via: &'static str) -> String {
        let uuid = self.led.accts[a].uuid;
        let after = self.db_primary_cred(uuid);
        let (Some(before), Some(after)) = (before, after) else { return "ok-entry-missing".into() };
        self.led.accts[a].cred = after;
        match (before, after) {
            (Some(b), Some(n)) if b == n => {
                self.out.probe("credential commit kept the credential uuid");
                return "ok-kept".into();
            }
            (None, _) => {
                self.out.probe("first credential set");
                return "ok-first".into();
            }
            _ => {}
        }
        let c = before.expect("checked");
        // ---- C36: the change that removed credential c revoked every session issued with it ----
        self.led.accts[a].removed_creds.insert(c);
        let mut recorded = 0;
        let mut unrecorded = 0;
        for s in self.led.sess.values_mut() {
            if s.acct == a && s.cred_id == Some(c) {
                if s.recorded {
                    recorded += 1;
                } else {
                    unrecorded += 1;
                }
                s.revoked.get_or_insert("cred-removed");
            }
        }
        self.out.probe(if after.is_some() { "credential replaced (new uuid)" } else { "credential removed" });
        if recorded > 0 {
            self.out.probe("credential removed while it had recorded sessions");
        }
        if unrecorded > 0 {
            self.out.probe("credential removed while a session record was still queued or lost");
        }
        let live: Vec<Uuid> = (|| {
            let idms = self.idms(0)?;
            let mut r = block(idms.proxy_read()).ok()?;
            let e = r.qs_read.internal_search_uuid(uuid).ok()?;
            let m = e.get_ava_as_session_map(Attribute::UserAuthTokenSession)?;
            Some(m.iter().filter(|(_, s)| s.cred_id == c && !matches!(s.state, SessionState::RevokedAt(_))).map(|(k, _)| *k).collect())
        })()
        .unwrap_or_default();
        if !live.is_empty() {
            let how = if after.is_some() { "replaced" } else { "deleted" };
            self.viol(
                "C36",
                "commit-revokes",
                format!("primary credential {how} ({via}): a recorded session issued with it is not revoked by the same change"),
                format!("account {} credential {c} {how} by a {via}; sessions {live:?} (cred_id == {c}) are still live in user_auth_token_session", self.led.accts[a].name),
            );
        }
        format!("ok-removed rec={recorded} unrec={unrecorded}")
    }

    fn op_login_begin(&mut self, slot: u64, p: usize, privileged: bool) -> String {
        if p >= self.led.accts.len() {
            return "bad-account".into();
        }
        let Some(idms) = self.idms(0) else { return "down".into() };
        let ct = self.ct();
        let name = self.led.accts[p].name.clone();
        let r: Result<(Uuid, String), OperationError> = (|| {
            let mut a = block(idms.auth())?;
            let init = AuthEvent::from_message(None, AuthStep::Init2 { username: name, issue: AuthIssueSession::Token, privileged })?;
            let r1 = block(a.auth(&init, ct, cai()))?;
            let sid = r1.sessionid;
            match r1.state {
                AuthState::Choose(m) if m.contains(&AuthMech::Password) => {}
                AuthState::Choose(_) => return Ok((sid, "no-password-mech".into())),
                AuthState::Denied(d) => return Ok((sid, format!("denied-init:{d}"))),
                _ => return Ok((sid, "unexpected-init".into())),
            }
            let begin = AuthEvent::from_message(Some(sid), AuthStep::Begin(AuthMech::Password))?;
            let r2 = block(a.auth(&begin, ct, cai()))?;
            let res = match r2.state {
                AuthState::Continue(_) => "continue".to_string(),
                AuthState::Denied(d) => format!("denied-begin:{d}"),
                _ => "unexpected-begin".into(),
            };
            a.commit()?;
            Ok((sid, res))
        })();
        match r {
            Ok((sid, s)) if s == "continue" => {
                self.auths.insert(slot, AuthSlot { sessionid: sid, acct: p, kind: AuthKind::Login { privileged }, pol_sess: self.pol_sess, pol_priv: self.pol_priv, generated: self.led.accts[p].generated });
                s
            }
            Ok((_, s)) => s,
            Err(e) => format!("err {e:?}"),
        }
    }

    fn op_reauth_begin(&mut self, slot: u64, from: u64, rw: bool) -> String {
        let Some(idms) = self.idms(0) else { return "down".into() };
        let ct = self.ct();
        let Some(t) = self.toks.get(&from) else { return "no-token".into() };
        let Some(acct) = t.acct else { return "anon".into() };
        if t.origin.is_api() {
            return "api".into();
        }
        let jws = t.jws.clone();
        let ident = {
            let Ok(mut pr) = block(idms.proxy_read()) else { return "down".into() };
            match pr.validate_client_auth_info_to_ident(cai_tok(&jws), ct) {
                Ok(i) => i,
                Err(e) => return format!("from-token-rejected {e:?}"),
            }
        };
        let r: Result<(Uuid, String), OperationError> = (|| {
            let mut a = block(idms.auth())?;
            let req = if rw { ReauthRequest::GrantReadWrite } else { ReauthRequest::VerifyCredentials };
            let r1 = block(a.reauth_init(ident, AuthIssueSession::Token, ct, cai(), req))?;
            let res = match r1.state {
                AuthState::Continue(_) => "continue".to_string(),
                AuthState::Denied(d) => format!("denied:{d}"),
                _ => "unexpected".into(),
            };
            a.commit()?;
            Ok((r1.sessionid, res))
        })();
        match r {
            Ok((sid, s)) if s == "continue" => {
                self.auths.insert(slot, AuthSlot { sessionid: sid, acct, kind: AuthKind::Reauth { from, rw }, pol_sess: self.pol_sess, pol_priv: self.pol_priv, generated: false });
                s
            }
            Ok((_, s)) => s,
            Err(e) => format!("err {e:?}"),
        }
    }

    fn op_login_cred(&mut self, slot: u64, pw: &str) -> String {
        let Some(au) = self.auths.remove(&slot) else { return "no-auth-session".into() };
        let Some(idms) = self.idms(0) else { return "down".into() };
        let ct = self.ct();
        let r: Result<AuthState, OperationError> = (|| {
            let mut a = block(idms.auth())?;
            let pw = if pw == GENERATED { self.gen_pw.get(&au.acct).cloned().unwrap_or_default() } else { pw.to_string() };
            let ev = AuthEvent::from_message(Some(au.sessionid), AuthStep::Cred(AuthCredential::Password(pw)))?;
            let r = block(a.auth(&ev, ct, cai()))?;
            a.commit()?;
            Ok(r.state)
        })();
        let jws = match r {
            Ok(AuthState::Success(t, _)) => *t,
            Ok(AuthState::Denied(d)) => return format!("denied:{d}"),
            Ok(_) => return "unexpected".into(),
            Err(e) => return format!("err {e:?}"),
        };
        self.drain();
        match au.kind {
            AuthKind::Login { privileged } => {
                let is_svc = au.acct >= self.cfg.persons;
                let (origin, window) = if au.generated {
                    // generated (recovery / service-account) password: kanidm documents these
                    // sessions as always read-write with a limited life
                    (Origin::LoginGenerated { privileged }, if is_svc { PRIV_MAX } else { au.pol_sess.min(PRIV_MAX) })
                } else if privileged {
                    (Origin::LoginPriv, au.pol_sess.min(PRIV_MAX))
                } else {
                    (Origin::LoginNonPriv, 0)
                };
                let uat = match self.register_uat(slot, jws, origin, Some(au.acct), window) {
                    Ok(u) => u,
                    Err(e) => {
                        self.out.harness_error = Some(e);
                        return "bad-token".into();
                    }
                };
                let cred_id = self.pending.iter().find_map(|d| match d {
                    DelayedAction::AuthSessionRecord(asr) if asr.session_id == uat.session_id => Some(asr.cred_id),
                    _ => None,
                });
                if cred_id.is_none() {
                    self.out.probe("login issued a token without queueing a session record");
                }
                let removed_meanwhile = cred_id.map(|c| self.led.accts[au.acct].removed_creds.contains(&c)).unwrap_or(false);
                if removed_meanwhile {
                    self.out.probe("login completed with a credential removed since the auth session began");
                }
                self.led.sess.insert(
                    uat.session_id,
                    SessM {
                        acct: au.acct,
                        cred_id,
                        expiry: uat.expiry.as_ref().map(odt_secs),
                        recorded: false,
                        unrecorded_why: if cred_id.is_some() { "pending" } else { "never-queued" },
                        revoked: if removed_meanwhile { Some("cred-removed") } else { None },
                    },
                );
                self.out.probe(if privileged { "privileged login" } else { "non-privileged login" });
                "token".into()
            }
            AuthKind::Reauth { from, rw } => {
                let origin = if rw { Origin::ReauthRw } else { Origin::ReauthRo };
                let window = if rw { au.pol_priv.min(PRIV_MAX) } else { 0 };
                let (old_sess, old_exp) = match self.toks.get(&from) {
                    Some(t) => (t.session, self.led.sess.get(&t.session).and_then(|s| s.expiry)),
                    None => return "from-token-gone".into(),
                };
                let uat = match self.register_uat(slot, jws, origin, Some(au.acct), window) {
                    Ok(u) => u,
                    Err(e) => {
                        self.out.harness_error = Some(e);
                        return "bad-token".into();
                    }
                };
                self.out.probe(if rw { "re-authentication (read-write)" } else { "re-authentication (verify only)" });
                // ---- C33: re-authentication never extends the overall session expiry ----
                let new_exp = uat.expiry.as_ref().map(odt_secs);
                let extended = match (old_exp, new_exp) {
                    (Some(o), Some(n)) => n > o,
                    (Some(_), None) => true,
                    _ => false,
                };
                if uat.session_id == old_sess && extended {
                    self.viol(
                        "C33",
                        "reauth-expiry",
                        "re-authentication extended the session expiry".into(),
                        format!("session {old_sess}: login token expiry {old_exp:?}, token after re-authentication at +{}s expires {new_exp:?}", self.now - BASE_EPOCH),
                    );
                }
                if uat.session_id != old_sess {
                    self.out.probe("re-authentication returned another session id");
                }
                "token".into()
            }
        }
    }

    fn op_anon_login(&mut self, slot: u64) -> String {
        let Some(idms) = self.idms(0) else { return "down".into() };
        let ct = self.ct();
        let r: Result<Option<JwsCompact>, OperationError> = (|| {
            let mut a = block(idms.auth())?;
            let init = AuthEvent::from_message(None, AuthStep::Init2 { username: "anonymous".into(), issue: AuthIssueSession::Token, privileged: false })?;
            let r1 = block(a.auth(&init, ct, cai()))?;
            let sid = r1.sessionid;
            if !matches!(r1.state, AuthState::Choose(_)) {
                return Ok(None);
            }
            let begin = AuthEvent::from_message(Some(sid), AuthStep::Begin(AuthMech::Anonymous))?;
            let r2 = block(a.auth(&begin, ct, cai()))?;
            if !matches!(r2.state, AuthState::Continue(_)) {
                return Ok(None);
            }
            let cr = AuthEvent::from_message(Some(sid), AuthStep::Cred(AuthCredential::Anonymous))?;
            let r3 = block(a.auth(&cr, ct, cai()))?;
            a.commit()?;
            Ok(match r3.state {
                AuthState::Success(t, _) => Some(*t),
                _ => None,
            })
        })();
        match r {
            Ok(Some(j)) => match self.register_uat(slot, j, Origin::Anon, None, 0) {
                Ok(_) => {
                    self.out.probe("anonymous login");
                    "token".into()
                }
                Err(e) => {
                    self.out.harness_error = Some(e);
                    "bad-token".into()
                }
            },
            Ok(None) => "no-token".into(),
            Err(e) => format!("err {e:?}"),
        }
    }

    fn op_api_issue(&mut self, slot: u64, s: usize, rw: bool, compact: bool, exp: Option<u64>) -> String {
        if s >= self.cfg.svcs {
            return "bad-svc".into();
        }
        let a = self.cfg.persons + s;
        let target = self.led.accts[a].uuid;
        let exp_abs = exp.map(|x| BASE_EPOCH + x);
        let gte = GenerateApiTokenEvent { ident: vh::identity_internal(), target, label: format!("tok{slot}"), expiry: exp_abs.map(odt), read_write: rw, compact };
        let jws = match self.w0(|w, ct| w.service_account_generate_api_token(&gte, ct)) {
            Ok(j) => j,
            Err(e) => return format!("err {e:?}"),
        };
        let Some(payload) = jws_payload(&jws) else {
            self.out.harness_error = Some("api token payload".into());
            return "bad-token".into();
        };
        let token_id = if compact {
            match Uuid::from_slice(&payload) {
                Ok(u) => u,
                Err(_) => {
                    self.out.harness_error = Some("compact api token payload is not a uuid".into());
                    return "bad-token".into();
                }
            }
        } else {
            match serde_json::from_slice::<ProtoApiToken>(&payload) {
                Ok(t) => t.token_id,
                Err(e) => {
                    self.out.harness_error = Some(format!("api token payload: {e}"));
                    return "bad-token".into();
                }
            }
        };
        let kid = jws.kid().unwrap_or("").to_string();
        self.toks.insert(
            slot,
            Tok {
                jws,
                kid,
                origin: if rw { Origin::ApiRw } else { Origin::ApiRo },
                acct: Some(a),
                acct_uuid: target,
                session: token_id,
                issued: self.now,
                expiry: exp_abs.map(|x| x as i64),
                auth_time: self.now,
                window: 0,
                compact,
            },
        );
        self.led.api.insert(token_id, ApiM { present: true });
        self.out.probe(if compact { "compact api token issued" } else { "api token issued" });
        "token".into()
    }

    fn op_set_validity(&mut self, a: AcctRef, from: Option<u64>, to: Option<u64>) -> String {
        let Some(i) = self.acct_idx(a) else { return "bad-acct".into() };
        if !self.led.accts[i].exists {
            return "skipped-account-deleted".into();
        }
        let uuid = self.led.accts[i].uuid;
        let mut mods = vec![m_purge(Attribute::AccountValidFrom), m_purge(Attribute::AccountExpire)];
        if let Some(f) = from {
            mods.push(Modify::Present(Attribute::AccountValidFrom, Value::new_datetime_epoch(Duration::from_secs(BASE_EPOCH + f))));
        }
        if let Some(t) = to {
            mods.push(Modify::Present(Attribute::AccountExpire, Value::new_datetime_epoch(Duration::from_secs(BASE_EPOCH + t))));
        }
        match self.w0(|w, _| w.qs_write.internal_modify_uuid(uuid, &ModifyList::new_list(mods))) {
            Ok(()) => {
                self.led.accts[i].vfrom = from.map(|x| BASE_EPOCH + x);
                self.led.accts[i].vto = to.map(|x| BASE_EPOCH + x);
                "ok".into()
            }
            Err(e) => format!("err {e:?}"),
        }
    }

    fn op_ldap_bind(&mut self, target: Uuid, pw: &str, what: &'static str) -> String {
        let Some(idms) = self.idms(0) else { return "down".into() };
        let ct = self.ct();
        let lbt: Result<Option<LdapBoundToken>, OperationError> = (|| {
            let mut a = block(idms.auth())?;
            let ev = LdapAuthEvent::from_parts(target, pw.to_string())?;
            let r = block(a.auth_ldap(&ev, ct))?;
            a.commit()?;
            Ok(r)
        })();
        self.drain();
        match lbt {
            Ok(Some(l)) => {
                let Ok(mut pr) = block(idms.proxy_read()) else { return "down".into() };
                match pr.validate_ldap_session(&l.effective_session, Source::Internal, ct) {
                    Ok(ident) => {
                        drop(pr);
                        self.out.probe(if what == "anonymous" { "ldap anonymous bind identity checked" } else { "ldap password bind identity checked" });
                        if ident.access_scope() == AccessScope::ReadWrite {
                            self.viol("C33", "scope", format!("ldap {what} bind identity is read-write"), format!("LDAP bind of {target} produced an identity with scope ReadWrite"));
                        }
                        "bound-ro".into()
                    }
                    Err(e) => format!("session-rejected {e:?}"),
                }
            }
            Ok(None) => "refused".into(),
            Err(e) => format!("err {e:?}"),
        }
    }

    fn exec(&mut self, op: &Op) -> String {
        match op.clone() {
            Op::Present => "ok".into(),
            Op::CuBegin { cu, p } => {
                if p >= self.cfg.persons {
                    return "bad-person".into();
                }
                let uuid = self.led.accts[p].uuid;
                let r = self.w0(|w, ct| {
                    let e = w.qs_write.internal_search_uuid(uuid)?;
                    let ident = Identity::from_impersonate_entry_readwrite(e);
                    w.init_credential_update(&InitCredentialUpdateEvent::new(ident, uuid), ct)
                });
                match r {
                    Ok((cust, _st)) => {
                        self.cus.insert(cu, (cust, p));
                        "ok".into()
                    }
                    Err(e) => format!("err {e:?}"),
                }
            }
            Op::CuSetPw { cu, pw } => {
                let Some(idms) = self.idms(0) else { return "down".into() };
                let ct = self.ct();
                let Some((cust, _)) = self.cus.get(&cu) else { return "no-session".into() };
                let r = (|| {
                    let tx = block(idms.cred_update_transaction())?;
                    tx.credential_primary_set_password(cust, ct, &pw)
                })();
                match r {
                    Ok(st) => format!("ok can_commit={}", st.can_commit()),
                    Err(e) => format!("err {e:?}"),
                }
            }
            Op::CuDelPrimary { cu } => {
                let Some(idms) = self.idms(0) else { return "down".into() };
                let ct = self.ct();
                let Some((cust, _)) = self.cus.get(&cu) else { return "no-session".into() };
                let r = (|| {
                    let tx = block(idms.cred_update_transaction())?;
                    tx.credential_primary_delete(cust, ct)
                })();
                match r {
                    Ok(st) => format!("ok can_commit={}", st.can_commit()),
                    Err(e) => format!("err {e:?}"),
                }
            }
            Op::CuCommit { cu } => self.op_cu_commit(cu),
            Op::CuCancel { cu } => {
                let Some((cust, _)) = self.cus.remove(&cu) else { return "no-session".into() };
                match self.w0(|w, ct| w.cancel_credential_update(&cust, ct)) {
                    Ok(()) => "ok".into(),
                    Err(e) => format!("err {e:?}"),
                }
            }
            Op::LoginBegin { slot, p, privileged } => {
                if p >= self.cfg.persons {
                    return "bad-person".into();
                }
                self.op_login_begin(slot, p, privileged)
            }
            Op::SvcLoginBegin { slot, s, privileged } => {
                if s >= self.cfg.svcs {
                    return "bad-svc".into();
                }
                self.op_login_begin(slot, self.cfg.persons + s, privileged)
            }
            Op::Recover { p, pw } => {
                if p >= self.cfg.persons {
                    return "bad-person".into();
                }
                let (uuid, name) = (self.led.accts[p].uuid, self.led.accts[p].name.clone());
                let before = self.db_primary_cred(uuid);
                match self.w0(|w, _| w.recover_account(&name, Some(&pw))) {
                    Ok(_) => {
                        self.led.accts[p].generated = true;
                        self.led.accts[p].vfrom = Some(self.now);
                        self.led.accts[p].vto = None;
                        self.out.probe("account recovered by the administrator");
                        self.cred_changed(p, before, "recover_account")
                    }
                    Err(e) => format!("err {e:?}"),
                }
            }
            Op::SvcGenPw { s } => {
                if s >= self.cfg.svcs {
                    return "bad-svc".into();
                }
                let a = self.cfg.persons + s;
                if !self.led.accts[a].exists {
                    return "skipped-account-deleted".into();
                }
                let uuid = self.led.accts[a].uuid;
                let before = self.db_primary_cred(uuid);
                let gpe = GeneratePasswordEvent::from_parts(vh::identity_internal(), uuid);
                let r = match gpe {
                    Ok(g) => self.w0(|w, _| w.generate_service_account_password(&g)),
                    Err(e) => Err(e),
                };
                match r {
                    Ok(pw) => {
                        self.gen_pw.insert(a, pw);
                        self.led.accts[a].generated = true;
                        self.out.probe("service account password generated");
                        self.cred_changed(a, before, "generate_service_account_password")
                    }
                    Err(e) => format!("err {e:?}"),
                }
            }
            Op::LoginCred { slot, pw } => self.op_login_cred(slot, &pw),
            Op::AnonLogin { slot } => self.op_anon_login(slot),
            Op::ReauthBegin { slot, from, rw } => self.op_reauth_begin(slot, from, rw),
            Op::Deliver { k } => {
                self.drain();
                self.deliver(k as usize)
            }
            Op::DeliverAll => {
                self.drain();
                let mut n = 0;
                while !self.pending.is_empty() && n < 64 {
                    self.deliver(0);
                    n += 1;
                }
                format!("delivered {n}")
            }
            Op::DestroySession { slot } => {
                let Some(t) = self.toks.get(&slot) else { return "no-token".into() };
                if t.origin.is_api() || t.acct.is_none() {
                    return "not-a-login".into();
                }
                let (target, sid) = (t.acct_uuid, t.session);
                // the user ends the session from (another of) their own sessions: a real, non-internal
                // identity, so that "nothing matched" is an error as it is for a real logout
                match self.w0(|w, _| {
                    let e = w.qs_write.internal_search_uuid(target)?;
                    let dte = DestroySessionTokenEvent { ident: Identity::from_impersonate_entry_readwrite(e), target, token_id: sid };
                    w.account_destroy_session_token(&dte)
                }) {
                    Ok(()) => {
                        if let Some(s) = self.led.sess.get_mut(&sid) {
                            s.revoked.get_or_insert("destroyed");
                        }
                        self.out.probe("session destroyed");
                        "ok".into()
                    }
                    Err(e) => {
                        self.out.probe("session destroy refused (no record yet / account gone)");
                        format!("err {e:?}")
                    }
                }
            }
            Op::ApiIssue { slot, s, rw, compact, exp } => self.op_api_issue(slot, s, rw, compact, exp),
            Op::ApiDestroy { slot } => {
                let Some(t) = self.toks.get(&slot) else { return "no-token".into() };
                if !t.origin.is_api() {
                    return "not-api".into();
                }
                let (target, token_id) = (t.acct_uuid, t.session);
                // an internal-identity modify that matches nothing reports success: only issue it
                // when the harness knows the target is a live entry
                if !t.acct.map(|i| self.led.accts[i].exists).unwrap_or(false) {
                    return "skipped-account-deleted".into();
                }
                let dte = DestroyApiTokenEvent { ident: vh::identity_internal(), target, token_id };
                match self.w0(|w, _| w.service_account_destroy_api_token(&dte)) {
                    Ok(()) => {
                        if let Some(a) = self.led.api.get_mut(&token_id) {
                            a.present = false;
                        }
                        self.out.probe("api token destroyed");
                        "ok".into()
                    }
                    Err(e) => format!("err {e:?}"),
                }
            }
            Op::SetValidity { a, from, to } => self.op_set_validity(a, from, to),
            Op::Delete { a } => {
                let Some(i) = self.acct_idx(a) else { return "bad-acct".into() };
                if !self.led.accts[i].exists {
                    return "skipped-account-deleted".into();
                }
                let uuid = self.led.accts[i].uuid;
                match self.w0(|w, _| w.qs_write.internal_delete_uuid(uuid)) {
                    Ok(()) => {
                        self.led.accts[i].exists = false;
                        self.out.probe("account deleted");
                        "ok".into()
                    }
                    Err(e) => format!("err {e:?}"),
                }
            }
            Op::Revive { a } => {
                let Some(i) = self.acct_idx(a) else { return "bad-acct".into() };
                let uuid = self.led.accts[i].uuid;
                if self.led.accts[i].exists {
                    return "not-deleted".into();
                }
                match self.w0(|w, _| vh::internal_revive_uuid(&mut w.qs_write, uuid)) {
                    Ok(()) => {
                        self.led.accts[i].exists = true;
                        self.out.probe("account revived");
                        "ok".into()
                    }
                    Err(e) => format!("err {e:?}"),
                }
            }
            Op::KeyRotate { at } => {
                let v = Value::new_datetime_epoch(Duration::from_secs(BASE_EPOCH + at));
                match self.w0(|w, _| w.qs_write.internal_modify_uuid(UUID_DOMAIN_INFO, &ModifyList::new_append(Attribute::KeyActionRotate, v))) {
                    Ok(()) => {
                        self.out.probe("domain key rotated");
                        "ok".into()
                    }
                    Err(e) => format!("err {e:?}"),
                }
            }
            Op::KeyRevokeOf { slot } => {
                let Some(t) = self.toks.get(&slot) else { return "no-token".into() };
                let kid = t.kid.clone();
                if kid.is_empty() {
                    return "no-kid".into();
                }
                let v = Value::HexString(kid.clone());
                match self.w0(|w, _| w.qs_write.internal_modify_uuid(UUID_DOMAIN_INFO, &ModifyList::new_append(Attribute::KeyActionRevoke, v))) {
                    Ok(()) => {
                        self.led.revoked_kids.insert(kid);
                        self.out.probe("domain key revoked");
                        "ok".into()
                    }
                    Err(e) => format!("err {e:?}"),
                }
            }
            Op::SetPolicy { sess, privx } => {
                let mods = ModifyList::new_list(vec![
                    m_purge(Attribute::AuthSessionExpiry),
                    Modify::Present(Attribute::AuthSessionExpiry, Value::Uint32(sess)),
                    m_purge(Attribute::PrivilegeExpiry),
                    Modify::Present(Attribute::PrivilegeExpiry, Value::Uint32(privx)),
                ]);
                match self.w0(|w, _| w.qs_write.internal_modify_uuid(UUID_IDM_ALL_PERSONS, &mods)) {
                    Ok(()) => {
                        self.pol_sess = sess as u64;
                        self.pol_priv = privx as u64;
                        "ok".into()
                    }
                    Err(e) => format!("err {e:?}"),
                }
            }
            Op::Restart => self.restart(),
            Op::Pull => self.pull1().into(),
            Op::SetUnixPw { p, pw } => {
                if p >= self.cfg.persons {
                    return "bad-person".into();
                }
                if !self.led.accts[p].exists {
                    return "skipped-account-deleted".into();
                }
                let uuid = self.led.accts[p].uuid;
                match self.w0(|w, _| {
                    let ev = UnixPasswordChangeEvent::from_parts(vh::identity_internal(), uuid, pw.clone())?;
                    w.set_unix_account_password(&ev)
                }) {
                    Ok(()) => "ok".into(),
                    Err(e) => format!("err {e:?}"),
                }
            }
            Op::LdapBind { p, pw } => {
                if p >= self.cfg.persons {
                    return "bad-person".into();
                }
                let uuid = self.led.accts[p].uuid;
                self.op_ldap_bind(uuid, &pw, "password")
            }
            Op::LdapAnonBind => self.op_ldap_bind(UUID_ANONYMOUS, "", "anonymous"),
            Op::LdapTokenBind { ls, slot } => {
                let Some(idms) = self.idms(0) else { return "down".into() };
                let ct = self.ct();
                let Some(t) = self.toks.get(&slot) else { return "no-token".into() };
                let jws = t.jws.clone();
                let r: Result<Option<LdapBoundToken>, OperationError> = (|| {
                    let mut a = block(idms.auth())?;
                    let ev = LdapTokenAuthEvent::from_parts(jws)?;
                    let r = block(a.token_auth_ldap(&ev, ct))?;
                    a.commit()?;
                    Ok(r)
                })();
                match r {
                    Ok(Some(l)) => {
                        self.ldaps.insert(ls, (l, slot));
                        self.out.probe("ldap connection bound with a token");
                        "bound".into()
                    }
                    Ok(None) => "refused".into(),
                    Err(e) => format!("err {e:?}"),
                }
            }
            Op::O2Grant { o, slot, life } => {
                let Some(t) = self.toks.get(&slot) else { return "no-token".into() };
                let Some(a) = t.acct else { return "anon".into() };
                if t.origin.is_api() {
                    return "api".into();
                }
                let (acct_uuid, parent) = (t.acct_uuid, t.session);
                if !self.led.accts[a].exists {
                    return "skipped-account-deleted".into();
                }
                let o2 = uuid_for(UC_O2, o);
                if self.led.o2.contains_key(&o2) {
                    return "dup".into();
                }
                let v = Value::Oauth2Session(o2, Oauth2Session { parent: Some(parent), state: SessionState::ExpiresAt(odt(self.now + life)), issued_at: odt(self.now), rs_uuid: self.rs_uuid });
                match self.w0(|w, _| w.qs_write.internal_modify_uuid(acct_uuid, &ModifyList::new_append(Attribute::OAuth2Session, v))) {
                    Ok(()) => {
                        self.led.o2.insert(o2, O2M { acct: a, parent, iat: self.now });
                        self.out.probe("oauth2 session granted on a login session");
                        "ok".into()
                    }
                    Err(e) => format!("err {e:?}"),
                }
            }
        }
    }
}
