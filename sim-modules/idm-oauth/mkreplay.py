#!/usr/bin/env python3
"""Turn `VERIF_MIN=1 kvsim explore` output into replay files (one per (oracle, signature) class).
usage: mkreplay.py <explore-output> <outdir>"""
import sys, json, re, os
src, outdir = sys.argv[1], sys.argv[2]
os.makedirs(outdir, exist_ok=True)
cur = None
classes = []
for line in open(src):
    m = re.match(r'^(C\d+) (\S+) \[(.*)\] x(\d+) e\.g\. seed (\d+)', line)
    if m:
        cur = {"property": m.group(1), "oracle": m.group(2), "signature": m.group(3), "seed": int(m.group(5)), "events": [], "cfg": None, "summary": ""}
        classes.append(cur)
        continue
    if cur is None:
        continue
    m = re.match(r'^\s+minimised \d+ -> \d+ events: cfg (.*)$', line)
    if m:
        cur["cfg"] = json.loads(m.group(1))
        continue
    s = line.strip()
    if s.startswith('{') and cur["cfg"] is not None:
        cur["events"].append(json.loads(s))
    elif s.startswith('=> '):
        cur["summary"] = s[3:]
for c in classes:
    if c["cfg"] is None:
        continue
    name = re.sub(r'[^A-Za-z0-9]+', '_', c["signature"])
    path = f'{outdir}/{c["property"]}-{c["oracle"]}-{name}.json'
    doc = {"property": c["property"], "oracle": c["oracle"], "signature": c["signature"], "engine": "E5 idm/oauth2",
           "seed": c["seed"], "cfg": c["cfg"], "events": c["events"], "violation": {"step": 0, "summary": c["summary"]},
           "plan_property": c["property"]}
    json.dump(doc, open(path, 'w'), indent=1)
    print(path, len(c["events"]))
