//! E5 idm/reset (C37: credential reset links are single use) and E5 idm/keys (C34: revoked keys
//! never verify). Both drive a real `IdmServer` on a file-backed `QueryServer` (restart = drop
//! everything, boot again on the same files) under a simulated clock; every run is an explicit
//! event list. Oracles are ledgers kept by the harness and written from the property statements.
use crate::cluster::BASE_EPOCH;
use crate::driver::{Budget, Outcome, Plan, Scenario, Tier};
use crate::node::{block, boot_idm, boot_qs, Idm, NodeCfg, Scratch};
use crate::rng::{fnv64, uuid_for, Rng};
use compact_jwt::compact::JweCompact;
use compact_jwt::jwe::JweBuilder;
use compact_jwt::traits::JwsVerifiable;
use compact_jwt::jws::JwsBuilder;
use compact_jwt::JwsCompact;
use kanidm_proto::v1::{AuthIssueSession, AuthMech};
use kanidmd_lib::credential::Credential;
use kanidmd_lib::entry::{Entry, EntryInit, EntryNew};
use kanidmd_lib::idm::authentication::{AuthCredential, AuthState, AuthStep};
use kanidmd_lib::idm::credupdatesession::{
    CredentialUpdateIntentTokenExchange, CredentialUpdateSessionToken, InitCredentialUpdateEvent, InitCredentialUpdateIntentEvent,
};
use kanidmd_lib::idm::event::{AuthEvent, AuthResult};
use kanidmd_lib::idm::server::IdmServerTransaction;
use kanidmd_lib::prelude::*;
use kanidmd_lib::repl::proto::{ConsumerState, ReplIncrementalContext, ReplRefreshContext, ReplRuvRange};
use kanidmd_lib::value::{IntentTokenState, KeyStatus};
use kanidmd_lib::verif_hooks as vh;
use serde::{Deserialize, Serialize};
use serde_json::{json, Value as J};
use std::collections::{BTreeMap, BTreeSet};
use std::path::PathBuf;

const K: u64 = 0x9E37_79B9_7F4A_7C15;

fn set_entropy(seed: u64, id: u64) {
    crate::entropy::swap_stream(Some(Rng::new(seed ^ id.wrapping_mul(K))));
}

/// Thread-local generators of the `rand` crates survive from one run to the next in a worker
/// process. Force both to reseed from the run's entropy stream: rand 0.8 (used by crypto-glue for
/// key generation) has no reseed call, so draw words until the interposed OS source is read (a
/// reseed happens at most every 64 KiB); rand 0.10 (kanidmd_lib) through the hook.
fn reset_thread_rngs() {
    use crypto_glue::rand::RngCore;
    let d0 = crate::entropy::draws();
    let mut r = crypto_glue::rand::thread_rng();
    for _ in 0..40_000 {
        let _ = r.next_u32();
        if crate::entropy::draws() != d0 {
            break;
        }
    }
    vh::reseed_thread_rng();
}

fn trace() -> bool {
    std::env::var("VERIF_TRACE").is_ok()
}

fn ct_ms(ms: u64) -> Duration {
    Duration::from_millis(BASE_EPOCH * 1000 + ms)
}

fn errname(e: &OperationError) -> String {
    let s = format!("{e:?}");
    s.split(['(', ' ', '{']).next().unwrap_or("").to_string()
}

fn person(u: Uuid, name: &str) -> Entry<EntryInit, EntryNew> {
    entry_init!(
        (Attribute::Class, EntryClass::Object.to_value()),
        (Attribute::Class, EntryClass::Account.to_value()),
        (Attribute::Class, EntryClass::Person.to_value()),
        (Attribute::Name, Value::new_iname(name)),
        (Attribute::Uuid, Value::Uuid(u)),
        (Attribute::Description, Value::new_utf8s(name)),
        (Attribute::DisplayName, Value::new_utf8s(name))
    )
}

/// One file-backed server: query server + IDM layer.
struct Server {
    path: PathBuf,
    idm: Option<Idm>,
    /// boots so far (in-memory session ids are only comparable within one incarnation)
    incarnation: u32,
}

impl Server {
    fn boot(path: PathBuf, ct: Duration) -> Result<Server, String> {
        let mut s = Server { path, idm: None, incarnation: 0 };
        s.start(ct)?;
        Ok(s)
    }
    fn start(&mut self, ct: Duration) -> Result<(), String> {
        self.idm = None;
        let qs = boot_qs(&NodeCfg::file(&self.path), ct).map_err(|e| format!("boot qs: {e:?}"))?;
        let idm = boot_idm(qs, ct).map_err(|e| format!("boot idm: {e:?}"))?;
        self.idm = Some(idm);
        self.incarnation += 1;
        Ok(())
    }
    fn idms(&self) -> &IdmServer {
        &self.idm.as_ref().expect("server up").idms
    }
    /// Throw away queued delayed actions (session records): none of the checked behaviour reads them.
    fn drain_delayed(&mut self) {
        if let Some(idm) = self.idm.as_mut() {
            loop {
                let mut buf = Vec::with_capacity(16);
                match crate::node::poll_now(idm.delayed.recv_many(&mut buf)) {
                    Some(n) if n > 0 => continue,
                    _ => break,
                }
            }
        }
    }
}

fn trigram_push(out: &mut Outcome, kinds: &mut Vec<u64>, kind: &str) {
    kinds.push(fnv64(kind.as_bytes()));
    let n = kinds.len();
    if n >= 3 {
        out.trigrams.push(kinds[n - 3].rotate_left(21) ^ kinds[n - 2].rotate_left(7) ^ kinds[n - 1]);
    }
}

fn finish(mut out: Outcome) -> Outcome {
    out.states.sort_unstable();
    out.states.dedup();
    out.trigrams.sort_unstable();
    out.trigrams.dedup();
    crate::entropy::swap_stream(None);
    vh::set_sim_now(None);
    out
}

fn viol_once(out: &mut Outcome, property: &str, oracle: &str, sig: String, summary: String, step: usize) {
    if out.violations.iter().any(|v| v.oracle == oracle && v.signature == sig) || out.violations.len() >= 12 {
        return;
    }
    out.violate(property, oracle, &sig, summary, step);
}

// =================================================================================================
// C37 — credential reset links are single use
// =================================================================================================

#[derive(Serialize, Deserialize, Clone, Debug)]
#[serde(tag = "op")]
enum REv {
    /// an administrator creates reset link `link` for account `acct` with the requested ttl
    Init { id: u64, link: usize, acct: usize, ttl: u64 },
    /// exchange the link for update session `sess`; `abort`: the server dies before the commit
    Exchange { id: u64, link: usize, sess: u64, abort: bool },
    /// the account holder opens an ordinary (link-less) update session
    SelfSession { id: u64, acct: usize, sess: u64 },
    SetPw { id: u64, sess: u64, pw: String },
    Commit { id: u64, sess: u64, abort: bool },
    Cancel { id: u64, sess: u64 },
    Revoke { id: u64, link: usize },
    /// the periodic in-memory session clean-up task
    Expire { id: u64 },
    Advance { id: u64, ms: u64 },
    Restart { id: u64 },
}

impl REv {
    fn kind(&self) -> &'static str {
        match self {
            REv::Init { .. } => "Init",
            REv::Exchange { abort: false, .. } => "Exchange",
            REv::Exchange { abort: true, .. } => "ExchangeAbort",
            REv::SelfSession { .. } => "SelfSession",
            REv::SetPw { .. } => "SetPw",
            REv::Commit { abort: false, .. } => "Commit",
            REv::Commit { abort: true, .. } => "CommitAbort",
            REv::Cancel { .. } => "Cancel",
            REv::Revoke { .. } => "Revoke",
            REv::Expire { .. } => "Expire",
            REv::Advance { .. } => "Advance",
            REv::Restart { .. } => "Restart",
        }
    }
    fn id(&self) -> u64 {
        match self {
            REv::Init { id, .. } | REv::Exchange { id, .. } | REv::SelfSession { id, .. } | REv::SetPw { id, .. } | REv::Commit { id, .. } | REv::Cancel { id, .. } | REv::Revoke { id, .. } | REv::Expire { id } | REv::Advance { id, .. } | REv::Restart { id } => *id,
        }
    }
}

#[derive(Serialize, Deserialize, Clone, Debug)]
struct RCfg {
    accounts: usize,
    /// simulated milliseconds added before every event (0: time moves only by Advance events, so
    /// consecutive requests carry the same timestamp)
    tick_ms: u64,
}

struct RLink {
    acct: usize,
    intent_id: String,
    /// the expiry the server reported when it issued the link
    expiry: Duration,
    /// sessions obtained by committed, successful exchanges, in order
    exchanged: Vec<u64>,
    /// sessions whose commit succeeded
    committed: Vec<u64>,
    /// credential changes observed on the account that carry a password set in a session of this link
    observed_changes: u32,
    last_state: &'static str,
}

struct RSess {
    link: Option<usize>,
    token: CredentialUpdateSessionToken,
    pw: Option<String>,
    exchanged_ms: u64,
    incarnation: u32,
    superseded_by: Option<u64>,
}

fn link_state_name(s: Option<&IntentTokenState>) -> &'static str {
    match s {
        None => "absent",
        Some(IntentTokenState::Valid { .. }) => "Valid",
        Some(IntentTokenState::InProgress { .. }) => "InProgress",
        Some(IntentTokenState::Consumed { .. }) => "Consumed",
    }
}

const ACCT_CLASS: u8 = 3;

fn c37_execute(plan: &Plan) -> Outcome {
    let mut out = Outcome::default();
    let cfg: RCfg = match serde_json::from_value(plan.cfg.clone()) {
        Ok(c) => c,
        Err(e) => return Outcome { harness_error: Some(format!("bad cfg: {e}")), ..Default::default() },
    };
    for p in [
        "exchange ok",
        "exchange refused: link consumed",
        "exchange refused: link expired",
        "exchange supersedes a live session",
        "exchange at the same instant as an earlier one",
        "commit ok",
        "commit refused: superseded session",
        "commit refused: link no longer in progress",
        "commit refused: session not on this server",
        "commit refused: session token expired",
        "cancel ok",
        "exchange after cancel",
        "restart with a session in progress",
        "link state InProgress->Valid",
        "link state InProgress->Consumed",
        "link state Valid->Consumed",
        "observed credential change",
        "credential change observed on an account other than the link's",
    ] {
        out.probe0(p);
    }
    let seed = plan.seed;
    let scratch = Scratch::new(&format!("c37-{seed:x}"));
    let mut now_ms: u64 = 0;
    set_entropy(seed, 0xb007_0001);
    reset_thread_rngs();
    let mut srv = match Server::boot(scratch.path().join("n0.db"), ct_ms(now_ms)) {
        Ok(s) => s,
        Err(e) => return finish(Outcome { harness_error: Some(e), ..Default::default() }),
    };
    let accts: Vec<Uuid> = (0..cfg.accounts.max(1)).map(|n| uuid_for(ACCT_CLASS, n as u64)).collect();
    // set-up: password-only credentials must be committable (the default policy for persons
    // demands MFA), and the accounts exist.
    {
        set_entropy(seed, 0xb007_0002);
        let r: Result<(), OperationError> = (|| {
            let mut w = block(srv.idms().proxy_write(ct_ms(now_ms)))?;
            w.qs_write.internal_modify_uuid(UUID_IDM_ALL_PERSONS, &ModifyList::new_purge(Attribute::CredentialTypeMinimum))?;
            let es: Vec<_> = accts.iter().enumerate().map(|(n, u)| person(*u, &format!("resetperson{n}"))).collect();
            w.qs_write.internal_create(es)?;
            w.commit()
        })();
        if let Err(e) = r {
            return finish(Outcome { harness_error: Some(format!("set-up failed: {e:?}")), ..Default::default() });
        }
    }
    let mut links: BTreeMap<usize, RLink> = BTreeMap::new();
    let mut sessions: BTreeMap<u64, RSess> = BTreeMap::new();
    // password -> session that set it
    let mut pw_owner: BTreeMap<String, u64> = BTreeMap::new();
    let mut cred_digest: Vec<u64> = vec![0; accts.len()];
    let mut kinds: Vec<u64> = vec![];
    let mut exchanges_ok = 0u64;
    let mut commit_attempts = 0u64;
    let tie = cfg.tick_ms == 0;

    for (step, evj) in plan.events.iter().enumerate() {
        let Ok(ev) = serde_json::from_value::<REv>(evj.clone()) else { continue };
        set_entropy(seed, ev.id());
        now_ms += cfg.tick_ms;
        out.sim_secs += cfg.tick_ms as f64 / 1000.0;
        out.events_run += 1;
        trigram_push(&mut out, &mut kinds, ev.kind());
        let ct = ct_ms(now_ms);
        let res: String = match &ev {
            REv::Advance { ms, .. } => {
                now_ms += ms;
                out.sim_secs += *ms as f64 / 1000.0;
                "ok".into()
            }
            REv::Restart { .. } => {
                if sessions.values().any(|s| s.incarnation == srv.incarnation && s.superseded_by.is_none()) {
                    out.probe("restart with a session in progress");
                }
                out.fault("restart");
                if let Err(e) = srv.start(ct) {
                    out.harness_error = Some(e);
                    break;
                }
                "restarted".into()
            }
            REv::Expire { .. } => match block(srv.idms().proxy_write(ct)) {
                Ok(mut w) => {
                    w.expire_credential_update_sessions(ct);
                    match w.commit() {
                        Ok(()) => "ok".into(),
                        Err(e) => format!("err {}", errname(&e)),
                    }
                }
                Err(e) => format!("err {}", errname(&e)),
            },
            REv::Init { link, acct, ttl, .. } => {
                if links.contains_key(link) || *acct >= accts.len() {
                    "skip".into()
                } else {
                    let r: Result<_, OperationError> = (|| {
                        let mut w = block(srv.idms().proxy_write(ct))?;
                        let admin = w.qs_write.internal_search_uuid(UUID_IDM_ADMIN)?;
                        let ident = Identity::from_impersonate_entry_readwrite(admin);
                        let tok = w.init_credential_update_intent(&InitCredentialUpdateIntentEvent::new(ident, accts[*acct], Some(Duration::from_secs(*ttl))), ct)?;
                        w.commit()?;
                        Ok(tok)
                    })();
                    match r {
                        Ok(tok) => {
                            let exp = tok.expiry_time - time::OffsetDateTime::UNIX_EPOCH;
                            let expiry = Duration::new(exp.whole_seconds().max(0) as u64, exp.subsec_nanoseconds().max(0) as u32);
                            links.insert(*link, RLink { acct: *acct, intent_id: tok.intent_id, expiry, exchanged: vec![], committed: vec![], observed_changes: 0, last_state: "Valid" });
                            "ok".into()
                        }
                        Err(e) => {
                            out.harness_error = Some(format!("an administrator could not create a reset link: {e:?}"));
                            break;
                        }
                    }
                }
            }
            REv::Exchange { link, sess, abort, .. } => match links.get(link).map(|l| l.intent_id.clone()) {
                None => "skip".into(),
                Some(intent_id) if !sessions.contains_key(sess) => {
                    let r: Result<_, OperationError> = (|| {
                        let mut w = block(srv.idms().proxy_write(ct))?;
                        let (tok, _st) = w.exchange_intent_credential_update(CredentialUpdateIntentTokenExchange { intent_id }, ct)?;
                        if *abort {
                            drop(w);
                            return Ok(None);
                        }
                        w.commit()?;
                        Ok(Some(tok))
                    })();
                    match r {
                        Ok(None) => {
                            out.fault("exchange-not-committed");
                            "aborted".into()
                        }
                        Ok(Some(tok)) => {
                            exchanges_ok += 1;
                            out.probe("exchange ok");
                            let l = links.get_mut(link).expect("link");
                            // --- the statement: once the change commits, or the link expires, it can no
                            // longer be exchanged
                            if let Some(c) = l.committed.first() {
                                viol_once(&mut out, "C37", "exchange-after-commit", format!("exchange accepted after the link's change committed; same_instant_clock={tie}"), format!("link {link}: exchange (event {}) succeeded although session {c} of this link had already committed", ev.id()), step);
                            }
                            if ct >= l.expiry {
                                viol_once(&mut out, "C37", "exchange-after-expiry", format!("exchange accepted at or after the link's expiry; same_instant_clock={tie}"), format!("link {link}: exchange (event {}) succeeded at {ct:?}, link expiry {:?}", ev.id(), l.expiry), step);
                            }
                            if l.last_state == "Valid" && !l.exchanged.is_empty() {
                                out.probe("exchange after cancel");
                            }
                            let mut superseded_live = false;
                            for (sid, s) in sessions.iter_mut() {
                                if s.link == Some(*link) && s.superseded_by.is_none() {
                                    s.superseded_by = Some(*sess);
                                    if s.incarnation == srv.incarnation {
                                        superseded_live = true;
                                    }
                                    if s.exchanged_ms == now_ms && s.incarnation == srv.incarnation {
                                        out.probe("exchange at the same instant as an earlier one");
                                    }
                                    let _ = sid;
                                }
                            }
                            if superseded_live {
                                out.probe("exchange supersedes a live session");
                            }
                            l.exchanged.push(*sess);
                            sessions.insert(*sess, RSess { link: Some(*link), token: tok, pw: None, exchanged_ms: now_ms, incarnation: srv.incarnation, superseded_by: None });
                            "ok".into()
                        }
                        Err(e) => {
                            match &e {
                                OperationError::SessionExpired => {
                                    let l = links.get(link).expect("link");
                                    if ct >= l.expiry {
                                        out.probe("exchange refused: link expired");
                                    } else {
                                        out.probe("exchange refused: link consumed");
                                    }
                                }
                                _ => out.probe(&format!("exchange refused: {}", errname(&e))),
                            }
                            format!("err {}", errname(&e))
                        }
                    }
                }
                Some(_) => "skip".into(),
            },
            REv::SelfSession { acct, sess, .. } => {
                if *acct >= accts.len() || sessions.contains_key(sess) {
                    "skip".into()
                } else {
                    let r: Result<_, OperationError> = (|| {
                        let mut w = block(srv.idms().proxy_write(ct))?;
                        let me = w.qs_write.internal_search_uuid(accts[*acct])?;
                        let ident = Identity::from_impersonate_entry_readwrite(me);
                        let (tok, _st) = w.init_credential_update(&InitCredentialUpdateEvent::new(ident, accts[*acct]), ct)?;
                        w.commit()?;
                        Ok(tok)
                    })();
                    match r {
                        Ok(tok) => {
                            sessions.insert(*sess, RSess { link: None, token: tok, pw: None, exchanged_ms: now_ms, incarnation: srv.incarnation, superseded_by: None });
                            "ok".into()
                        }
                        Err(e) => format!("err {}", errname(&e)),
                    }
                }
            }
            REv::SetPw { sess, pw, .. } => match sessions.get_mut(sess) {
                None => "skip".into(),
                Some(s) => {
                    let r: Result<_, OperationError> = (|| {
                        let cu = block(srv.idms().cred_update_transaction())?;
                        cu.credential_primary_set_password(&s.token, ct, pw)
                    })();
                    match r {
                        Ok(st) => {
                            s.pw = Some(pw.clone());
                            pw_owner.insert(pw.clone(), *sess);
                            format!("ok can_commit={}", st.can_commit())
                        }
                        Err(e) => format!("err {}", errname(&e)),
                    }
                }
            },
            REv::Commit { sess, abort, .. } => match sessions.get(sess) {
                None => "skip".into(),
                Some(s) => {
                    commit_attempts += 1;
                    let r: Result<bool, OperationError> = (|| {
                        let mut w = block(srv.idms().proxy_write(ct))?;
                        w.commit_credential_update(&s.token, ct)?;
                        if *abort {
                            drop(w);
                            return Ok(false);
                        }
                        w.commit()?;
                        Ok(true)
                    })();
                    match r {
                        Ok(false) => {
                            out.fault("commit-not-committed");
                            "aborted".into()
                        }
                        Ok(true) => {
                            out.probe("commit ok");
                            if let Some(ln) = s.link {
                                let same_instant = s.superseded_by.and_then(|n| sessions.get(&n)).map(|n| n.exchanged_ms == s.exchanged_ms && n.incarnation == s.incarnation).unwrap_or(false);
                                let l = links.get_mut(&ln).expect("link");
                                // --- a session superseded by a later exchange of the same link cannot commit
                                if let Some(by) = s.superseded_by {
                                    viol_once(&mut out, "C37", "superseded-commit", format!("a superseded session committed; exchanged_at_same_instant_as_successor={same_instant}"), format!("link {ln}: session {sess} committed (event {}) although the link was exchanged again later for session {by}", ev.id()), step);
                                }
                                // --- a link leads to at most one committed credential change
                                l.committed.push(*sess);
                                if l.committed.len() > 1 {
                                    let same = l.committed[0] == *sess;
                                    viol_once(&mut out, "C37", "single-commit", format!("second committed change from one link; same_session_twice={same}; same_instant_clock={tie}"), format!("link {ln}: sessions {:?} all committed", l.committed), step);
                                }
                            }
                            "ok".into()
                        }
                        Err(e) => {
                            match &e {
                                OperationError::CU0005IntentTokenConflict => out.probe("commit refused: superseded session"),
                                OperationError::CU0006IntentTokenInvalidated => out.probe("commit refused: link no longer in progress"),
                                OperationError::InvalidState => out.probe("commit refused: session not on this server"),
                                OperationError::SessionExpired => out.probe("commit refused: session token expired"),
                                _ => out.probe(&format!("commit refused: {}", errname(&e))),
                            }
                            format!("err {}", errname(&e))
                        }
                    }
                }
            },
            REv::Cancel { sess, .. } => match sessions.get(sess) {
                None => "skip".into(),
                Some(s) => {
                    let r: Result<(), OperationError> = (|| {
                        let mut w = block(srv.idms().proxy_write(ct))?;
                        w.cancel_credential_update(&s.token, ct)?;
                        w.commit()
                    })();
                    match r {
                        Ok(()) => {
                            out.probe("cancel ok");
                            "ok".into()
                        }
                        Err(e) => format!("err {}", errname(&e)),
                    }
                }
            },
            REv::Revoke { link, .. } => match links.get(link).map(|l| l.intent_id.clone()) {
                None => "skip".into(),
                Some(intent_id) => {
                    let r: Result<(), OperationError> = (|| {
                        let mut w = block(srv.idms().proxy_write(ct))?;
                        w.revoke_credential_update_intent(CredentialUpdateIntentTokenExchange { intent_id }, ct)?;
                        w.commit()
                    })();
                    match r {
                        Ok(()) => "ok".into(),
                        Err(e) => format!("err {}", errname(&e)),
                    }
                }
            },
        };
        out.chain(fnv64(format!("{}:{}:{}", ev.id(), ev.kind(), res).as_bytes()));
        if trace() {
            eprintln!("[{step}] t={now_ms} {evj} -> {res}");
        }

        // ---- observation: link states and credentials as stored on the accounts
        let obs: Result<u64, OperationError> = (|| {
            let mut r = block(srv.idms().proxy_read())?;
            let mut h = 0u64;
            for (a, u) in accts.iter().enumerate() {
                let e = r.qs_read.internal_search_uuid(*u)?;
                let states = e.get_ava_set(Attribute::CredentialUpdateIntentToken).and_then(|vs| vs.as_intenttoken_map()).cloned().unwrap_or_default();
                for (ln, l) in links.iter_mut().filter(|(_, l)| l.acct == a) {
                    let st = link_state_name(states.get(&l.intent_id));
                    if st != l.last_state {
                        out.probe(&format!("link state {}->{}", l.last_state, st));
                        l.last_state = st;
                    }
                    h = h.rotate_left(9) ^ fnv64(format!("{ln}{st}{}{}", l.exchanged.len(), l.committed.len()).as_bytes());
                }
                let cred = e.get_ava_single_credential(Attribute::PrimaryCredential);
                let d = cred.map(|c| fnv64(format!("{:?}{:?}", c.timestamp(), e.get_ava_set(Attribute::PrimaryCredential).map(|vs| vs.to_db_valueset_v2())).as_bytes())).unwrap_or(0);
                if d != cred_digest[a] {
                    cred_digest[a] = d;
                    out.probe("observed credential change");
                    // whose password is it?
                    let owner = cred.and_then(|c: &Credential| c.password_ref().ok()).and_then(|p| pw_owner.iter().find(|(pw, _)| p.verify(pw).unwrap_or(false)).map(|(_, s)| *s));
                    if let Some(sid) = owner {
                        let s = sessions.get(&sid);
                        if let Some(ln) = s.and_then(|s| s.link) {
                            let l = links.get_mut(&ln).expect("link");
                            if l.acct != a {
                                out.probe("credential change observed on an account other than the link's");
                            }
                            l.observed_changes += 1;
                            if l.observed_changes > 1 {
                                viol_once(&mut out, "C37", "single-commit", format!("second stored credential change from one link (observed on the account); same_instant_clock={tie}"), format!("link {ln}: the account's stored credential changed {} times to passwords set in sessions of this link", l.observed_changes), step);
                            }
                        }
                    }
                    h ^= fnv64(format!("cred{a}{owner:?}").as_bytes());
                }
                h = h.rotate_left(5) ^ (cred_digest[a] != 0) as u64;
            }
            let live = sessions.values().filter(|s| s.incarnation == srv.incarnation).count();
            Ok(h ^ (live as u64).wrapping_mul(K))
        })();
        match obs {
            Ok(h) => {
                out.states.push(h);
                out.chain(h);
            }
            Err(e) => {
                out.harness_error = Some(format!("observation failed: {e:?}"));
                break;
            }
        }
    }
    out.nontrivial = exchanges_ok >= 1 && commit_attempts >= 1 && out.events_run >= 3;
    drop(srv);
    finish(out)
}

fn c37_generate(seed: u64, tier: Tier) -> Plan {
    let mut k = Rng::stream(seed, "knobs");
    let accounts = 1 + k.below(2) as usize;
    let tick_ms = *k.pick(&[0u64, 0, 1, 1000, 1000, 1000, 7000]);
    let n = if tier == Tier::Quick { 24 + k.below(22) as usize } else { 24 + k.below(60) as usize };
    let two_links = k.chance(1, 2);
    let mut g = Rng::stream(seed, "events");
    let mut evs: Vec<J> = vec![];
    let mut id = 1u64;
    let mut now: u64 = 0; // generator's own estimate of the clock, to aim advances at boundaries
    let mut link_exp: BTreeMap<usize, u64> = BTreeMap::new();
    let mut sess_made: Vec<(u64, u64)> = vec![]; // (sess id, time)
    let mut next_sess = 1u64;
    let mut with_pw: Vec<u64> = vec![];
    let mut want_pw: Option<u64> = None;
    let ttls = [60u64, 300, 600, 1200, 3600, 3600, 86_400, 100_000];
    let clamp = |t: u64| t.clamp(300, 86_400);
    let push = |evs: &mut Vec<J>, e: REv| evs.push(serde_json::to_value(e).expect("json"));
    // link 0 always exists from the start
    {
        now += tick_ms;
        let ttl = *g.pick(&ttls);
        link_exp.insert(0, now + clamp(ttl) * 1000);
        push(&mut evs, REv::Init { id, link: 0, acct: 0, ttl });
        id += 1;
    }
    while evs.len() < n {
        now += tick_ms;
        let w = [22u32, 16, 20, 6, 12, 3, 3, if two_links && !link_exp.contains_key(&1) { 6 } else { 0 }, 1, 2, 2, 3];
        // a fresh session usually gets its password next
        let choice = match want_pw.take() {
            Some(s) if g.chance(2, 3) => {
                100 + s as usize
            }
            _ => g.pick_weighted(&w),
        };
        let e = match choice {
            c if c >= 100 => {
                let s = (c - 100) as u64;
                with_pw.push(s);
                REv::SetPw { id, sess: s, pw: format!("kv {:08x} reset {:04x} Zq", g.next_u64() as u32, id) }
            }
            0 => {
                let link = if two_links { g.below(2) as usize } else { 0 };
                let s = next_sess;
                next_sess += 1;
                sess_made.push((s, now));
                want_pw = Some(s);
                REv::Exchange { id, link, sess: s, abort: false }
            }
            1 if !sess_made.is_empty() => {
                let s = g.pick(&sess_made).0;
                with_pw.push(s);
                REv::SetPw { id, sess: s, pw: format!("kv {:08x} reset {:04x} Zq", g.next_u64() as u32, id) }
            }
            2 if !sess_made.is_empty() => {
                // bias to the most recent sessions that have a password, sometimes any
                let s = if !with_pw.is_empty() && g.chance(3, 4) { with_pw[with_pw.len() - 1 - g.below(with_pw.len().min(3) as u64) as usize] } else { g.pick(&sess_made).0 };
                REv::Commit { id, sess: s, abort: false }
            }
            3 if !sess_made.is_empty() => REv::Cancel { id, sess: g.pick(&sess_made).0 },
            4 => {
                // mostly small steps; sometimes aim at the newest session's 900 s lifetime; crossing a
                // link's expiry is kept for the later part of a run (an expired link ends the story)
                let first_exp = link_exp.values().copied().filter(|e| *e > now).min();
                let late = evs.len() * 3 >= n * 2;
                let mut ms = match g.below(10) {
                    0..=4 => *g.pick(&[1u64, 1, 1000, 1000, 10_000, 60_000]),
                    5 | 6 => match sess_made.last() {
                        Some((_, t0)) if *t0 + 900_000 + 1 > now => {
                            let t = (*t0 as i64 + 900_000 + *g.pick(&[-1000i64, -1, 0, 1, 1000])).max(now as i64 + 1) as u64;
                            t - now
                        }
                        _ => *g.pick(&[299_000u64, 300_000, 301_000]),
                    },
                    7 => *g.pick(&[299_000u64, 300_000, 301_000, 899_000, 900_000, 901_000]),
                    _ => match first_exp {
                        Some(e) => {
                            let t = (e as i64 + *g.pick(&[-1000i64, -1, 0, 1, 1000])).max(now as i64 + 1) as u64;
                            t - now
                        }
                        None => 3_600_000,
                    },
                };
                if let Some(e) = first_exp {
                    if now + ms >= e && !late && !g.chance(1, 6) {
                        // stay before the expiry for now
                        ms = (e - now).saturating_sub(2000 + g.below(600_000)).max(1);
                    }
                }
                now += ms;
                REv::Advance { id, ms }
            }
            5 => REv::Expire { id },
            6 => REv::Restart { id },
            7 => {
                let ttl = *g.pick(&ttls);
                link_exp.insert(1, now + clamp(ttl) * 1000);
                REv::Init { id, link: 1, acct: g.below(accounts as u64) as usize, ttl }
            }
            8 => REv::Revoke { id, link: if two_links { g.below(2) as usize } else { 0 } },
            9 => {
                let s = next_sess;
                next_sess += 1;
                sess_made.push((s, now));
                want_pw = Some(s);
                REv::SelfSession { id, acct: g.below(accounts as u64) as usize, sess: s }
            }
            10 => {
                let link = if two_links { g.below(2) as usize } else { 0 };
                let s = next_sess;
                next_sess += 1;
                REv::Exchange { id, link, sess: s, abort: true }
            }
            11 if !with_pw.is_empty() => REv::Commit { id, sess: *g.pick(&with_pw), abort: true },
            _ => {
                now -= tick_ms;
                continue;
            }
        };
        push(&mut evs, e);
        id += 1;
    }
    Plan { property: "C37".into(), seed, cfg: json!({"accounts": accounts, "tick_ms": tick_ms}), events: evs }
}

struct C37;

impl Scenario for C37 {
    fn property(&self) -> &'static str {
        "C37"
    }
    fn engine(&self) -> &'static str {
        "E5 idm/reset"
    }
    fn budget(&self, tier: Tier) -> Budget {
        match tier {
            Tier::Quick => Budget { runs: 320, wall_cap_s: 55 },
            Tier::Thorough => Budget { runs: 40_000, wall_cap_s: 1500 },
        }
    }
    fn generate(&self, seed: u64, tier: Tier) -> Plan {
        c37_generate(seed, tier)
    }
    fn execute(&self, plan: &Plan) -> Outcome {
        c37_execute(plan)
    }
    fn droppable(&self, ev: &J) -> bool {
        // a link that is never created makes every later event about it a no-op
        !(ev["op"] == "Init" && ev["link"] == 0)
    }
    fn rule(&self) -> String {
        "A run = one real IdmServer on a file-backed database, 1-2 accounts, 1-2 reset links, and a random interleaving (24-45 events quick, up to 84 thorough) of: link creation with a random ttl (clamped by the server), exchange, repeated exchange of the same link, set-password in any session obtained so far, commit / cancel of current and superseded sessions, link revocation, ordinary link-less update sessions, exchanges and commits whose transaction is dropped instead of committed, the in-memory session clean-up task, restart, and clock advances aimed at the link expiry, the 900 s session lifetime and their +-1 ms/+-1 s neighbours. The clock moves only through events (a per-run tick of 0, 1 ms, 1 s or 7 s before every event plus explicit advances). Ledger oracle per link, from the statement: successful commits <= 1 (also as observed on the stored credential: every password is unique to the session that set it); no exchange succeeds after a commit or at/after the expiry the server reported; a session for which a later exchange of the same link succeeded never commits. distinct_nontrivial = distinct digests of (stored link state, exchanges, commits, live sessions, credential owner) after each event; a run is non-trivial when at least one exchange succeeded and at least one commit was attempted.".into()
    }
    fn components(&self) -> J {
        json!({
            "real": ["kanidmd_lib IdmServer (proxy_write / cred_update transactions, in-memory update-session table), credential update session logic, account policy, access controls (idm_admin impersonation), QueryServer + SQLite file backend, domain key object (session token JWE)"],
            "stub": ["wall clock (ct parameter)", "OS entropy (seeded stream)", "HTTP layer: the harness calls the same IdmServer methods the v1 credential-update handlers call"],
            "not_run": ["kanidmd_core actors / axum", "web UI", "e-mail delivery of links"]
        })
    }
    fn assumptions(&self) -> Vec<String> {
        vec![
            "one server (the statement's quantifier); replication of the link state is not part of this check".into(),
            "restart = process death between requests; in-memory update sessions are lost, the database keeps whatever was committed".into(),
            "sampled interleavings, not exhaustive".into(),
        ]
    }
}


// =================================================================================================
// C34 — revoked keys never verify
// =================================================================================================

#[derive(Serialize, Deserialize, Clone, Debug)]
#[serde(tag = "op")]
enum KEv {
    /// request a rotation of every key of `obj` on node n, new keys valid from epoch second `at`
    Rotate { id: u64, n: usize, obj: String, at: u64 },
    /// revoke, on node n, the `usage` key of `obj` that was created by event `creator` (0 = set-up)
    Revoke { id: u64, n: usize, obj: String, usage: String, creator: u64 },
    /// revoke a key id nobody has
    RevokeUnknown { id: u64, n: usize, obj: String },
    /// produce an artefact with obj's current key for `usage` on node n
    Sign { id: u64, n: usize, obj: String, usage: String },
    /// a real password login on node n: the session token is signed by the domain key
    Login { id: u64, n: usize },
    Reload { id: u64, n: usize },
    /// node c pulls from node s (ranges, supply, apply in one step)
    Repl { id: u64, c: usize, s: usize },
    Advance { id: u64, secs: u64 },
}

impl KEv {
    fn kind(&self) -> &'static str {
        match self {
            KEv::Rotate { .. } => "Rotate",
            KEv::Revoke { .. } => "Revoke",
            KEv::RevokeUnknown { .. } => "RevokeUnknown",
            KEv::Sign { .. } => "Sign",
            KEv::Login { .. } => "Login",
            KEv::Reload { .. } => "Reload",
            KEv::Repl { .. } => "Repl",
            KEv::Advance { .. } => "Advance",
        }
    }
    fn id(&self) -> u64 {
        match self {
            KEv::Rotate { id, .. } | KEv::Revoke { id, .. } | KEv::RevokeUnknown { id, .. } | KEv::Sign { id, .. } | KEv::Login { id, .. } | KEv::Reload { id, .. } | KEv::Repl { id, .. } | KEv::Advance { id, .. } => *id,
        }
    }
}

#[derive(Serialize, Deserialize, Clone, Debug)]
struct KCfg {
    nodes: usize,
    /// simulated seconds added before every event
    tick_s: u64,
    /// the custom key object also carries an RS256 key (RSA generation is slow)
    rs256: bool,
    oauth2: bool,
}

const KEYOBJ_CLASS: u8 = 4;
const LOGIN_PW: &str = "kv 5eed c34 login Zq 77";
const LOGIN_NAME: &str = "keyperson";
const O2_NAME: &str = "kvclient";

fn obj_uuid(obj: &str) -> Option<Uuid> {
    match obj {
        "domain" => Some(UUID_DOMAIN_INFO),
        "custom" => Some(uuid_for(KEYOBJ_CLASS, 1)),
        "oauth2" => Some(uuid_for(KEYOBJ_CLASS, 2)),
        _ => None,
    }
}

#[derive(Clone, Debug)]
struct KeyRec {
    usage: String,
    /// epoch second from which the key may sign: the requested rotation time for keys made by a
    /// rotation request, the value the server stored for keys it made by itself
    valid_from: u64,
    created_by: u64,
}

enum Art {
    Jws(JwsCompact),
    Jwe(JweCompact),
    Uat(JwsCompact),
}

struct Artefact {
    id: u64,
    obj: String,
    usage: String,
    kid: String,
    made_on: usize,
    body: Art,
    payload: Vec<u8>,
}

fn kid12(k: &str) -> String {
    k.chars().take(12).collect()
}

struct KeySim {
    cfg: KCfg,
    now_s: u64,
    nodes: Vec<Server>,
    /// (obj, kid) -> record
    keys: BTreeMap<(String, String), KeyRec>,
    /// per node: keys it has been given, revocations it has been given
    has: Vec<BTreeSet<(String, String)>>,
    knows: Vec<BTreeSet<(String, String)>>,
    /// revocation requests that succeeded anywhere
    revoked_anywhere: BTreeSet<(String, String)>,
    /// per node: revocations executed on it / keys created on it (forgotten at a refresh)
    exec_rev: Vec<BTreeSet<(String, String)>>,
    created: Vec<BTreeSet<(String, String)>>,
    /// step at which a key was created / first revoked
    made_step: BTreeMap<(String, String), usize>,
    rev_step: BTreeMap<(String, String), usize>,
    /// per node: (step, object or "*", kind) of its own writes to key objects
    local_writes: Vec<Vec<(usize, String, &'static str)>>,
    /// per node: for items delivered by a pull, the consumer's own change in between
    lc_rev: Vec<BTreeMap<(String, String), &'static str>>,
    lc_key: Vec<BTreeMap<(String, String), &'static str>>,
    prev_stored: Vec<BTreeMap<(String, String), KeyStatus>>,
    arts: Vec<Artefact>,
    /// last state-changing event kind per node (part of signatures)
    after: Vec<&'static str>,
    out: Outcome,
    step: usize,
}

type KeyMap = BTreeMap<String, (String, u64, KeyStatus)>;

impl KeySim {
    fn ct(&self) -> Duration {
        Duration::from_secs(BASE_EPOCH + self.now_s)
    }

    fn objs(&self) -> Vec<&'static str> {
        let mut v = vec!["domain", "custom"];
        if self.cfg.oauth2 {
            v.push("oauth2");
        }
        v
    }

    /// kid -> (usage, valid_from, status) as stored on node n's entry for obj
    fn key_map(&self, n: usize, obj: &str) -> Result<KeyMap, OperationError> {
        let u = obj_uuid(obj).ok_or(OperationError::InvalidState)?;
        let mut r = block(self.nodes[n].idms().proxy_read())?;
        let e = r.qs_read.internal_search_uuid(u)?;
        let mut m = KeyMap::new();
        if let Some(km) = e.get_ava_set(Attribute::KeyInternalData).and_then(|vs| vs.as_key_internal_map()) {
            for (kid, d) in km.iter() {
                m.insert(kid.as_str().to_string(), (d.usage.to_string(), d.valid_from, d.status));
            }
        }
        Ok(m)
    }

    /// Record keys that appeared on node n's entry for obj during event `by`.
    fn learn_new_keys(&mut self, n: usize, obj: &str, before: &KeyMap, by: u64, requested_from: Option<u64>) -> Result<usize, OperationError> {
        let after = self.key_map(n, obj)?;
        let mut c = 0;
        for (kid, (usage, vf, _st)) in after.iter() {
            if !before.contains_key(kid) {
                let k = (obj.to_string(), kid.clone());
                self.keys.entry(k.clone()).or_insert(KeyRec { usage: usage.clone(), valid_from: requested_from.unwrap_or(*vf), created_by: by });
                let st = self.step;
                self.made_step.entry(k.clone()).or_insert(st);
                self.created[n].insert(k.clone());
                self.has[n].insert(k);
                c += 1;
            }
        }
        Ok(c)
    }

    fn key_action(&mut self, n: usize, obj: &str, attr: Attribute, v: Value) -> Result<(), OperationError> {
        let u = obj_uuid(obj).ok_or(OperationError::InvalidState)?;
        let ct = self.ct();
        let mut w = block(self.nodes[n].idms().proxy_write(ct))?;
        w.qs_write.internal_modify_uuid(u, &ModifyList::new_append(attr, v))?;
        w.commit()
    }

    fn sign(&self, n: usize, obj: &str, usage: &str, payload: &[u8]) -> Result<Art, OperationError> {
        let u = obj_uuid(obj).ok_or(OperationError::InvalidState)?;
        let ct = self.ct();
        let r = block(self.nodes[n].idms().proxy_read())?;
        match usage {
            "jwe_a128gcm" => {
                let jwe = JweBuilder::from(payload.to_vec()).build();
                vh::key_object_jwe_encrypt(&r.qs_read, u, &jwe, ct).map(Art::Jwe)
            }
            "jws_es256" | "jws_hs256" | "jws_rs256" => {
                let jws = JwsBuilder::from(payload.to_vec()).build();
                vh::key_object_jws_sign(&r.qs_read, u, &usage[4..], &jws, ct).map(Art::Jws)
            }
            _ => Err(OperationError::InvalidState),
        }
    }

    fn login(&mut self, n: usize) -> Result<JwsCompact, String> {
        let ct = self.ct();
        let cai = || ClientAuthInfo::new(Source::Internal, None, None, None);
        let idms = self.nodes[n].idms();
        let r: Result<JwsCompact, String> = (|| {
            let mut a = block(idms.auth()).map_err(|e| format!("{e:?}"))?;
            let AuthResult { sessionid, state } = block(a.auth(&AuthEvent::from_message(None, AuthStep::Init2 { username: LOGIN_NAME.to_string(), issue: AuthIssueSession::Token, privileged: false }).map_err(|e| format!("{e:?}"))?, ct, cai())).map_err(|e| format!("init {e:?}"))?;
            if !matches!(state, AuthState::Choose(_)) {
                return Err(format!("init state {state:?}"));
            }
            let AuthResult { sessionid, state } = block(a.auth(&AuthEvent::from_message(Some(sessionid), AuthStep::Begin(AuthMech::Password)).map_err(|e| format!("{e:?}"))?, ct, cai())).map_err(|e| format!("begin {e:?}"))?;
            if !matches!(state, AuthState::Continue(_)) {
                return Err(format!("begin state {state:?}"));
            }
            let AuthResult { state, .. } = block(a.auth(&AuthEvent::from_message(Some(sessionid), AuthStep::Cred(AuthCredential::Password(LOGIN_PW.to_string()))).map_err(|e| format!("{e:?}"))?, ct, cai())).map_err(|e| format!("step {e:?}"))?;
            a.commit().map_err(|e| format!("{e:?}"))?;
            match state {
                AuthState::Success(tok, AuthIssueSession::Token) => Ok(*tok),
                s => Err(format!("final state {s:?}")),
            }
        })();
        self.nodes[n].drain_delayed();
        r
    }

    /// Is the artefact accepted on node n?
    fn accepted(&self, n: usize, a: &Artefact) -> Result<bool, OperationError> {
        let u = obj_uuid(&a.obj).ok_or(OperationError::InvalidState)?;
        let mut r = block(self.nodes[n].idms().proxy_read())?;
        Ok(match &a.body {
            Art::Jws(j) => vh::key_object_jws_verify(&r.qs_read, u, j).map(|v| v.payload() == a.payload.as_slice()).unwrap_or(false),
            Art::Jwe(j) => vh::key_object_jwe_decrypt(&r.qs_read, u, j).map(|v| v.payload() == a.payload.as_slice()).unwrap_or(false),
            Art::Uat(j) => {
                let ct = self.ct();
                r.validate_client_auth_info_to_ident(ClientAuthInfo::new(Source::Internal, None, Some(j.clone()), None), ct).is_ok()
            }
        })
    }

    /// What node n's own stored key sets say: (obj, kid) -> status.
    fn stored(&self, n: usize) -> Result<BTreeMap<(String, String), KeyStatus>, OperationError> {
        let mut m = BTreeMap::new();
        for obj in self.objs() {
            for (kid, (_, _, st)) in self.key_map(n, obj)? {
                m.insert((obj.to_string(), kid), st);
            }
        }
        Ok(m)
    }

    /// The node's own change to `obj` (rotation, revocation, or a restart) after `since`.
    fn local_change(&self, n: usize, obj: &str, since: usize) -> &'static str {
        self.local_writes[n].iter().rev().find(|(st, o, _)| *st > since && (o == obj || o == "*")).map(|(_, _, k)| *k).unwrap_or("none")
    }

    /// The ledger oracle over every artefact on every node, plus the advertised OAuth2 key set.
    ///
    /// Two levels of "the node has the revocation / the key": (base) the node executed the request
    /// itself or its own stored key set records it; (after replication) the node pulled successfully
    /// from a node that had it. They are separate oracles.
    fn check_all(&mut self) {
        for n in 0..self.nodes.len() {
            let stored = match self.stored(n) {
                Ok(m) => m,
                Err(e) => {
                    self.out.harness_error = Some(format!("reading key sets of node {n}: {e:?}"));
                    return;
                }
            };
            let step = self.step;
            if self.prev_stored[n].iter().any(|(k, st)| *st == KeyStatus::Revoked && !stored.contains_key(k)) {
                self.out.probe("revoked keys trimmed from the entry");
            }
            self.prev_stored[n] = stored.clone();
            for i in 0..self.arts.len() {
                let a = &self.arts[i];
                let key = (a.obj.clone(), a.kid.clone());
                let ok = match self.accepted(n, a) {
                    Ok(b) => b,
                    Err(e) => {
                        self.out.harness_error = Some(format!("verify on node {n}: {e:?}"));
                        return;
                    }
                };
                let kind = match a.body {
                    Art::Jws(_) => "signature",
                    Art::Jwe(_) => "encrypted token",
                    Art::Uat(_) => "login token",
                };
                self.out.chain(ok as u64 ^ (a.id << 1));
                let base_revoked = self.exec_rev[n].contains(&key) || stored.get(&key) == Some(&KeyStatus::Revoked);
                let base_holds = self.created[n].contains(&key) || stored.get(&key).map(|st| *st != KeyStatus::Revoked).unwrap_or(false);
                let desc = format!("artefact {} ({kind}, {} key {} of {}, made on node {})", a.id, a.usage, a.kid, a.obj, a.made_on);
                if base_revoked {
                    self.out.probe("artefact of a revoked key checked");
                    if ok {
                        let sig = format!("{kind} of a revoked key accepted by a node whose own key set records the revocation; after={}", self.after[n]);
                        let sum = format!("node {n}: {desc} is accepted although the key is revoked on this node (last change on the node: {})", self.after[n]);
                        viol_once(&mut self.out, "C34", "revoked-accepted", sig, sum, step);
                    }
                } else if self.knows[n].contains(&key) {
                    self.out.probe("artefact of a revoked key checked (revocation delivered by replication, not in the node's key set)");
                    if ok {
                        let lc = self.lc_rev[n].get(&key).copied().unwrap_or("none");
                        let sig = format!("a revocation delivered by a successful pull is not in force on the consumer; consumer changed that key object itself between the revocation and the pull: {}", if lc == "none" { "no" } else { "yes" });
                        let sum = format!("node {n}: {desc} is accepted: the key was revoked on another node and node {n} has since pulled successfully from a node that had the revocation, but node {n}'s key set still lists the key as {:?} (node {n}'s own change to the object in between: {lc})", stored.get(&key));
                        viol_once(&mut self.out, "C34", "revoked-accepted-after-replication", sig, sum, step);
                    }
                } else if !self.revoked_anywhere.contains(&key) && !matches!(a.body, Art::Uat(_)) {
                    if base_holds {
                        self.out.probe("artefact of a live key checked");
                        if self.keys.iter().any(|((o, _), r)| *o == a.obj && r.usage == a.usage && r.valid_from > self.keys.get(&key).map(|k| k.valid_from).unwrap_or(0)) {
                            self.out.probe("artefact of an older, non-revoked key checked after rotation");
                        }
                        if !ok {
                            let sig = format!("{kind} of a never-revoked key the node holds is rejected; after={}", self.after[n]);
                            let sum = format!("node {n}: {desc} is rejected although the key was never revoked and node {n} holds it (last change on the node: {})", self.after[n]);
                            viol_once(&mut self.out, "C34", "valid-rejected", sig, sum, step);
                        }
                    } else if self.has[n].contains(&key) {
                        self.out.probe("artefact of a live key checked (key delivered by replication, not in the node's key set)");
                        if !ok {
                            let lc = self.lc_key[n].get(&key).copied().unwrap_or("none");
                            let sig = format!("a key delivered by a successful pull is not usable on the consumer; consumer changed that key object itself between the key's creation and the pull: {}", if lc == "none" { "no" } else { "yes" });
                            let sum = format!("node {n}: {desc} is rejected: the key was never revoked, node {n} has pulled successfully from a node that held it, but node {n}'s key set does not contain it (node {n}'s own change to the object in between: {lc})");
                            viol_once(&mut self.out, "C34", "valid-rejected-after-replication", sig, sum, step);
                        }
                    }
                }
            }
            // relying parties verify OAuth2 tokens with the advertised key set: a revoked key must not be in it
            if self.cfg.oauth2 {
                let jwks = block(self.nodes[n].idms().proxy_read()).and_then(|r| r.oauth2_openid_publickey(O2_NAME));
                if let Ok(set) = jwks {
                    for jwk in set.keys.iter() {
                        let kid = match jwk {
                            compact_jwt::Jwk::EC { kid, .. } => kid.clone(),
                            compact_jwt::Jwk::RSA { kid, .. } => kid.clone(),
                        };
                        let Some(kid) = kid else { continue };
                        let key = ("oauth2".to_string(), kid12(&kid));
                        if self.exec_rev[n].contains(&key) || stored.get(&key) == Some(&KeyStatus::Revoked) {
                            let sig = format!("revoked key advertised in the OAuth2 client's public key set; after={}", self.after[n]);
                            let sum = format!("node {n}: key {} of the OAuth2 client is revoked on this node but is still in the key set relying parties fetch", key.1);
                            viol_once(&mut self.out, "C34", "revoked-accepted", sig, sum, step);
                        }
                    }
                    self.out.probe("oauth2 public key set checked");
                }
            }
        }
    }

    /// New artefacts use the newest non-revoked key whose validity has started (judged on what the
    /// signing node itself holds).
    fn check_signer(&mut self, n: usize, obj: &str, usage: &str, kid: &str, what: &str) {
        let now = self.ct().as_secs();
        let Ok(stored) = self.stored(n) else { return };
        let revoked = |k: &(String, String)| self.exec_rev[n].contains(k) || stored.get(k) == Some(&KeyStatus::Revoked);
        let holds = |k: &(String, String)| self.created[n].contains(k) || stored.contains_key(k);
        let elig: Vec<(&(String, String), &KeyRec)> = self.keys.iter().filter(|(k, r)| k.0 == obj && r.usage == usage && holds(k) && !revoked(k) && r.valid_from <= now).collect();
        let newest = elig.iter().map(|(_, r)| r.valid_from).max();
        let key = (obj.to_string(), kid.to_string());
        let rec = self.keys.get(&key).cloned();
        if self.keys.iter().any(|(k, r)| k.0 == obj && r.usage == usage && holds(k) && !revoked(k) && r.valid_from > now) {
            self.out.probe("signed while a key with a future validity start exists");
        }
        if elig.len() > 1 {
            self.out.probe("signed with more than one eligible key");
        }
        let step = self.step;
        let problem: Option<(&str, String)> = match (&rec, newest) {
            (None, _) => Some(("signed with a key the ledger has never seen", format!("kid {kid}"))),
            (Some(_), _) if revoked(&key) => Some(("signed with a key that is revoked on the signing node", format!("kid {kid}"))),
            (Some(r), _) if r.valid_from > now => Some(("signed with a key whose validity has not started", format!("kid {kid} valid from {} but now is {now}", r.valid_from))),
            (Some(r), Some(m)) if r.valid_from < m => Some(("signed with an older key although a newer started non-revoked key exists", format!("kid {kid} valid from {}, newest eligible valid from {m}", r.valid_from))),
            _ => None,
        };
        if let Some((p, d)) = problem {
            let sig = format!("{what}: {p}; after={}", self.after[n]);
            let sum = format!("node {n}, {obj} {usage}: {p}: {d}; eligible keys: {:?}", elig.iter().map(|(k, r)| format!("{}@{}", k.1, r.valid_from)).collect::<Vec<_>>());
            viol_once(&mut self.out, "C34", "signer-choice", sig, sum, step);
        }
    }

    fn pull(&mut self, c: usize, s: usize) -> Result<&'static str, OperationError> {
        let ct = self.ct();
        let range: ReplRuvRange = {
            let mut r = block(self.nodes[c].idms().proxy_read())?;
            r.qs_read.consumer_get_state()?
        };
        let range: ReplRuvRange = serde_json::from_str(&serde_json::to_string(&range).expect("json")).expect("json");
        let ctx: ReplIncrementalContext = {
            let mut r = block(self.nodes[s].idms().proxy_read())?;
            r.qs_read.supplier_provide_changes(range)?
        };
        let ctx: ReplIncrementalContext = serde_json::from_str(&serde_json::to_string(&ctx).expect("json")).expect("json");
        let kind = match &ctx {
            ReplIncrementalContext::V1 { .. } => "applied",
            ReplIncrementalContext::NoChangesAvailable => "nochanges",
            ReplIncrementalContext::RefreshRequired => "refresh-required",
            ReplIncrementalContext::UnwillingToSupply => "unwilling",
            ReplIncrementalContext::DomainMismatch => "domain-mismatch",
        };
        let st = {
            let mut w = block(self.nodes[c].idms().proxy_write(ct))?;
            let st = w.qs_write.consumer_apply_changes(ctx)?;
            w.commit()?;
            st
        };
        match (st, kind) {
            (ConsumerState::RefreshRequired, _) | (_, "refresh-required") => {
                self.refresh(c, s)?;
                Ok("refreshed")
            }
            (ConsumerState::Ok, k) => Ok(k),
        }
    }

    fn refresh(&mut self, c: usize, s: usize) -> Result<(), OperationError> {
        let ct = self.ct();
        let ctx: ReplRefreshContext = {
            let mut r = block(self.nodes[s].idms().proxy_read())?;
            r.qs_read.supplier_provide_refresh()?
        };
        let ctx: ReplRefreshContext = serde_json::from_str(&serde_json::to_string(&ctx).expect("json")).expect("json");
        let mut w = block(self.nodes[c].idms().proxy_write(ct))?;
        w.qs_write.consumer_apply_refresh(ctx)?;
        w.commit()?;
        // a refresh replaces the consumer's database with the supplier's, by design
        self.has[c] = self.has[s].clone();
        self.knows[c] = self.knows[s].clone();
        self.exec_rev[c].clear();
        self.created[c].clear();
        self.lc_rev[c].clear();
        self.lc_key[c].clear();
        self.after[c] = "refresh";
        Ok(())
    }

    fn state_digest(&self) -> u64 {
        let now = self.ct().as_secs();
        let mut h = 0u64;
        for n in 0..self.nodes.len() {
            for obj in self.objs() {
                if let Ok(m) = self.key_map(n, obj) {
                    let mut v: Vec<String> = m.values().map(|(u, vf, st)| format!("{u}{}{st}", if *vf == 0 { "z" } else if *vf <= now { "p" } else { "f" })).collect();
                    v.sort();
                    h = h.rotate_left(11) ^ fnv64(format!("{n}{obj}{v:?}").as_bytes());
                }
            }
            h ^= (self.knows[n].len() as u64).wrapping_mul(K);
        }
        h ^ (self.arts.len() as u64).rotate_left(40)
    }
}

fn c34_execute(plan: &Plan) -> Outcome {
    let cfg: KCfg = match serde_json::from_value(plan.cfg.clone()) {
        Ok(c) => c,
        Err(e) => return Outcome { harness_error: Some(format!("bad cfg: {e}")), ..Default::default() },
    };
    let seed = plan.seed;
    let scratch = Scratch::new(&format!("c34-{seed:x}"));
    let nn = cfg.nodes.clamp(1, 2);
    let mut sim = KeySim { cfg: cfg.clone(), now_s: 0, nodes: vec![], keys: BTreeMap::new(), has: vec![BTreeSet::new(); nn], knows: vec![BTreeSet::new(); nn], revoked_anywhere: BTreeSet::new(), exec_rev: vec![BTreeSet::new(); nn], created: vec![BTreeSet::new(); nn], made_step: BTreeMap::new(), rev_step: BTreeMap::new(), local_writes: vec![vec![]; nn], lc_rev: vec![BTreeMap::new(); nn], lc_key: vec![BTreeMap::new(); nn], prev_stored: vec![BTreeMap::new(); nn], arts: vec![], after: vec!["boot"; nn], out: Outcome::default(), step: 0 };
    for p in [
        "artefact of a revoked key checked",
        "artefact of a revoked key checked (revocation delivered by replication, not in the node's key set)",
        "artefact of a live key checked",
        "artefact of a live key checked (key delivered by replication, not in the node's key set)",
        "artefact of an older, non-revoked key checked after rotation",
        "signed while a key with a future validity start exists",
        "signed with more than one eligible key",
        "revoke ok",
        "revoke of the current signer",
        "revoke refused",
        "rotate ok",
        "rotate with a future validity start",
        "server made a replacement key by itself",
        "reload with a revoked key stored",
        "revocation delivered by replication",
        "key delivered by replication",
        "sign refused: no active key",
        "login ok",
        "revoked keys trimmed from the entry",
    ] {
        sim.out.probe0(p);
    }
    // ---- set-up
    let setup: Result<(), String> = (|| {
        set_entropy(seed, 0xb007_0010);
        reset_thread_rngs();
        let ct = sim.ct();
        sim.nodes.push(Server::boot(scratch.path().join("n0.db"), ct)?);
        set_entropy(seed, 0xb007_0011);
        let r: Result<(), OperationError> = (|| {
            let mut w = block(sim.nodes[0].idms().proxy_write(ct))?;
            w.qs_write.internal_modify_uuid(UUID_IDM_ALL_PERSONS, &ModifyList::new_purge(Attribute::CredentialTypeMinimum))?;
            let mut es = vec![person(uuid_for(ACCT_CLASS, 100), LOGIN_NAME)];
            let mut ko = entry_init!(
                (Attribute::Class, EntryClass::Object.to_value()),
                (Attribute::Class, EntryClass::KeyObject.to_value()),
                (Attribute::Class, EntryClass::KeyObjectJwtEs256.to_value()),
                (Attribute::Class, EntryClass::KeyObjectJwtHs256.to_value()),
                (Attribute::Class, EntryClass::KeyObjectJweA128GCM.to_value()),
                (Attribute::Uuid, Value::Uuid(uuid_for(KEYOBJ_CLASS, 1)))
            );
            if cfg.rs256 {
                ko.add_ava(Attribute::Class, EntryClass::KeyObjectJwtRs256.to_value());
            }
            es.push(ko);
            if cfg.oauth2 {
                es.push(entry_init!(
                    (Attribute::Class, EntryClass::Object.to_value()),
                    (Attribute::Class, EntryClass::Account.to_value()),
                    (Attribute::Class, EntryClass::OAuth2ResourceServer.to_value()),
                    (Attribute::Class, EntryClass::OAuth2ResourceServerBasic.to_value()),
                    (Attribute::Uuid, Value::Uuid(uuid_for(KEYOBJ_CLASS, 2))),
                    (Attribute::Name, Value::new_iname(O2_NAME)),
                    (Attribute::DisplayName, Value::new_utf8s(O2_NAME)),
                    (Attribute::OAuth2RsOriginLanding, Value::new_url_s("https://demo.example.com").expect("url")),
                    (Attribute::OAuth2RsScopeMap, Value::new_oauthscopemap(UUID_IDM_ALL_ACCOUNTS, BTreeSet::from(["openid".to_string()])).expect("scopemap"))
                ));
            }
            w.qs_write.internal_create(es)?;
            let cred = Credential::new_password_only(&kanidm_lib_crypto::CryptoPolicy::danger_test_minimum(), LOGIN_PW, time::OffsetDateTime::UNIX_EPOCH)?;
            w.qs_write.internal_modify_uuid(uuid_for(ACCT_CLASS, 100), &ModifyList::new_list(vec![Modify::Present(Attribute::PrimaryCredential, Value::new_credential("primary", cred))]))?;
            w.commit()
        })();
        r.map_err(|e| format!("set-up write: {e:?}"))?;
        if nn > 1 {
            set_entropy(seed, 0xb007_0012);
            sim.nodes.push(Server::boot(scratch.path().join("n1.db"), ct)?);
            set_entropy(seed, 0xb007_0013);
            sim.refresh(1, 0).map_err(|e| format!("initial refresh: {e:?}"))?;
            sim.after[1] = "boot";
        }
        // initial keys (creator 0)
        for obj in sim.objs() {
            let empty = KeyMap::new();
            sim.learn_new_keys(0, obj, &empty, 0, None).map_err(|e| format!("initial keys: {e:?}"))?;
        }
        if nn > 1 {
            sim.has[1] = sim.has[0].clone();
        }
        sim.created[0].clear(); // set-up keys are judged by the stored key sets
        Ok(())
    })();
    if let Err(e) = setup {
        return finish(Outcome { harness_error: Some(format!("C34 set-up: {e}")), ..Default::default() });
    }
    if trace() {
        eprintln!("set-up done");
    }
    let mut kinds: Vec<u64> = vec![];
    let mut revocations = 0u64;
    let t_wall = std::time::Instant::now(); // diagnostics only (trace mode)
    for (step, evj) in plan.events.iter().enumerate() {
        let Ok(ev) = serde_json::from_value::<KEv>(evj.clone()) else { continue };
        sim.step = step;
        set_entropy(seed, ev.id());
        sim.now_s += cfg.tick_s;
        sim.out.sim_secs += cfg.tick_s as f64;
        sim.out.events_run += 1;
        trigram_push(&mut sim.out, &mut kinds, ev.kind());
        let res: String = match &ev {
            KEv::Advance { secs, .. } => {
                sim.now_s += secs;
                sim.out.sim_secs += *secs as f64;
                "ok".into()
            }
            KEv::Reload { n, .. } if *n < nn => {
                if !sim.knows[*n].is_empty() {
                    sim.out.probe("reload with a revoked key stored");
                }
                sim.out.fault("reload");
                let ct = sim.ct();
                match sim.nodes[*n].start(ct) {
                    Ok(()) => {
                        sim.local_writes[*n].push((step, "*".into(), "restart"));
                        sim.after[*n] = "reload";
                        "ok".into()
                    }
                    Err(e) => {
                        sim.out.harness_error = Some(e);
                        break;
                    }
                }
            }
            KEv::Rotate { n, obj, at, .. } if *n < nn && sim.objs().contains(&obj.as_str()) => {
                let before = sim.key_map(*n, obj).unwrap_or_default();
                let now = sim.ct().as_secs();
                match sim.key_action(*n, obj, Attribute::KeyActionRotate, Value::new_datetime_epoch(Duration::from_secs(*at))) {
                    Ok(()) => {
                        sim.out.probe("rotate ok");
                        if *at > now {
                            sim.out.probe("rotate with a future validity start");
                        }
                        sim.after[*n] = "rotate";
                        sim.local_writes[*n].push((step, obj.clone(), "rotation"));
                        let c = sim.learn_new_keys(*n, obj, &before, ev.id(), Some((*at).max(now))).unwrap_or(0);
                        format!("ok new={c}")
                    }
                    Err(e) => format!("err {}", errname(&e)),
                }
            }
            KEv::Revoke { n, obj, usage, creator, .. } if *n < nn => {
                let target = sim.keys.iter().find(|(k, r)| k.0 == *obj && r.usage == *usage && r.created_by == *creator).map(|(k, _)| k.clone());
                match target {
                    None => "skip".into(),
                    Some(key) => {
                        let before = sim.key_map(*n, obj).unwrap_or_default();
                        // is it the key a signature made now would use?
                        let now = sim.ct().as_secs();
                        let newest = sim.keys.iter().filter(|(k, r)| k.0 == *obj && r.usage == *usage && sim.has[*n].contains(*k) && !sim.knows[*n].contains(*k) && r.valid_from <= now).map(|(_, r)| r.valid_from).max();
                        let is_signer = sim.has[*n].contains(&key) && !sim.knows[*n].contains(&key) && newest == sim.keys.get(&key).map(|r| r.valid_from);
                        match sim.key_action(*n, obj, Attribute::KeyActionRevoke, Value::HexString(key.1.clone())) {
                            Ok(()) => {
                                revocations += 1;
                                sim.out.probe("revoke ok");
                                if is_signer {
                                    sim.out.probe("revoke of the current signer");
                                }
                                sim.after[*n] = "revoke";
                                sim.local_writes[*n].push((step, obj.clone(), "revocation"));
                                sim.exec_rev[*n].insert(key.clone());
                                sim.rev_step.entry(key.clone()).or_insert(step);
                                sim.knows[*n].insert(key.clone());
                                sim.revoked_anywhere.insert(key.clone());
                                let c = sim.learn_new_keys(*n, obj, &before, ev.id(), None).unwrap_or(0);
                                if c > 0 {
                                    sim.out.probe("server made a replacement key by itself");
                                }
                                format!("ok new={c}")
                            }
                            Err(e) => {
                                sim.out.probe("revoke refused");
                                format!("err {}", errname(&e))
                            }
                        }
                    }
                }
            }
            KEv::RevokeUnknown { n, obj, .. } if *n < nn && sim.objs().contains(&obj.as_str()) => match sim.key_action(*n, obj, Attribute::KeyActionRevoke, Value::HexString("00112233445566778899aabb".chars().take(12).collect())) {
                Ok(()) => "ok?".into(),
                Err(e) => {
                    sim.out.probe("revoke refused");
                    format!("err {}", errname(&e))
                }
            },
            KEv::Sign { n, obj, usage, .. } if *n < nn && sim.objs().contains(&obj.as_str()) => {
                let payload = format!("artefact {} {}", ev.id(), usage).into_bytes();
                match sim.sign(*n, obj, usage, &payload) {
                    Ok(body) => {
                        let kid = match &body {
                            Art::Jws(j) | Art::Uat(j) => j.kid().map(kid12),
                            Art::Jwe(j) => j.kid().map(kid12),
                        };
                        match kid {
                            Some(kid) => {
                                sim.check_signer(*n, obj, usage, &kid, "sign");
                                sim.arts.push(Artefact { id: ev.id(), obj: obj.clone(), usage: usage.clone(), kid: kid.clone(), made_on: *n, body, payload });
                                format!("ok {kid}")
                            }
                            None => "ok nokid".into(),
                        }
                    }
                    Err(e) => {
                        if matches!(e, OperationError::KP0020KeyObjectNoActiveSigningKeys | OperationError::KP0042KeyObjectNoActiveEncryptionKeys) {
                            sim.out.probe("sign refused: no active key");
                        }
                        format!("err {}", errname(&e))
                    }
                }
            }
            KEv::Login { n, .. } if *n < nn => match sim.login(*n) {
                Ok(tok) => {
                    sim.out.probe("login ok");
                    match tok.kid().map(kid12) {
                        Some(kid) => {
                            sim.check_signer(*n, "domain", "jws_es256", &kid, "login");
                            sim.arts.push(Artefact { id: ev.id(), obj: "domain".into(), usage: "jws_es256".into(), kid: kid.clone(), made_on: *n, body: Art::Uat(tok), payload: vec![] });
                            format!("ok {kid}")
                        }
                        None => "ok nokid".into(),
                    }
                }
                Err(e) => {
                    sim.out.harness_error = Some(format!("password login failed on node {n}: {e}"));
                    break;
                }
            },
            KEv::Repl { c, s, .. } if *c < nn && *s < nn && c != s => match sim.pull(*c, *s) {
                Ok(k) => {
                    if k == "applied" || k == "nochanges" {
                        let (hs, ks) = (sim.has[*s].clone(), sim.knows[*s].clone());
                        for x in ks.iter().filter(|x| !sim.knows[*c].contains(*x)) {
                            sim.out.probe("revocation delivered by replication");
                            let lc = sim.local_change(*c, &x.0, sim.rev_step.get(x).copied().unwrap_or(0));
                            sim.lc_rev[*c].insert(x.clone(), lc);
                        }
                        for x in hs.iter().filter(|x| !sim.has[*c].contains(*x)) {
                            sim.out.probe("key delivered by replication");
                            let lc = sim.local_change(*c, &x.0, sim.made_step.get(x).copied().unwrap_or(0));
                            sim.lc_key[*c].insert(x.clone(), lc);
                        }
                        sim.has[*c].extend(hs);
                        sim.knows[*c].extend(ks);
                        if k == "applied" {
                            sim.after[*c] = "repl";
                        }
                    }
                    sim.out.probe(&format!("pull: {k}"));
                    k.into()
                }
                Err(e) => {
                    sim.out.probe(&format!("pull error {}", errname(&e)));
                    format!("err {}", errname(&e))
                }
            },
            _ => "skip".into(),
        };
        sim.out.chain(fnv64(format!("{}:{}:{}", ev.id(), ev.kind(), res).as_bytes()));
        if trace() {
            eprintln!("[{step}] t={} wall_ms={} {evj} -> {res}", sim.now_s, t_wall.elapsed().as_millis());
            for n in 0..nn {
                for obj in sim.objs() {
                    if let Ok(m) = sim.key_map(n, obj) {
                        eprintln!("      n{n} {obj}: {}", m.iter().map(|(k, (u, vf, st))| format!("{k}/{}/{vf}/{st}", &u[4..])).collect::<Vec<_>>().join(" "));
                    }
                }
            }
        }
        if sim.out.harness_error.is_some() {
            break;
        }
        sim.check_all();
        if sim.out.harness_error.is_some() {
            break;
        }
        let d = sim.state_digest();
        sim.out.states.push(d);
        sim.out.chain(d);
    }
    sim.out.nontrivial = revocations >= 1 && !sim.arts.is_empty() && sim.out.events_run >= 3;
    let KeySim { out, nodes, .. } = sim;
    drop(nodes);
    finish(out)
}

fn c34_generate(seed: u64, tier: Tier) -> Plan {
    let mut k = Rng::stream(seed, "knobs");
    let nodes = 1 + k.below(2) as usize;
    let tick_s = *k.pick(&[0u64, 1, 1, 30]);
    let rs256 = k.chance(1, 6);
    let oauth2 = k.chance(1, 2);
    let n_ev = if tier == Tier::Quick { 22 + k.below(18) as usize } else { 22 + k.below(50) as usize };
    let big_time = k.chance(1, 4);
    let mut g = Rng::stream(seed, "events");
    let mut objs = vec!["domain", "custom"];
    if oauth2 {
        objs.push("oauth2");
    }
    let usages_of = |obj: &str| -> Vec<&'static str> {
        match obj {
            "custom" => {
                let mut v = vec!["jws_es256", "jws_hs256", "jwe_a128gcm"];
                if rs256 {
                    v.push("jws_rs256");
                }
                v
            }
            _ => vec!["jws_es256", "jwe_a128gcm"],
        }
    };
    let mut evs: Vec<J> = vec![];
    let mut id = 1u64;
    let mut now = BASE_EPOCH;
    // events that may have created keys, per object (0 = set-up)
    let mut creators: BTreeMap<&str, Vec<u64>> = objs.iter().map(|o| (*o, vec![0u64])).collect();
    let mut pending_future: Vec<u64> = vec![];
    while evs.len() < n_ev {
        now += tick_s;
        let nd = g.below(nodes as u64) as usize;
        let obj = *g.pick(&objs);
        let w = [12u32, 12, 1, 26, 5, 5, if nodes > 1 { 14 } else { 0 }, 12];
        let e = match g.pick_weighted(&w) {
            0 => {
                let at = match g.below(8) {
                    0 => now - 3600,
                    1 => now - 1,
                    2 | 3 => now,
                    4 => now + 1,
                    5 => now + 60,
                    6 => now + 3600,
                    _ => now + 86_400,
                };
                if at > now {
                    pending_future.push(at);
                }
                creators.get_mut(obj).expect("obj").push(id);
                KEv::Rotate { id, n: nd, obj: obj.into(), at }
            }
            1 => {
                let cs = creators.get(obj).expect("obj");
                // bias to the newest and the oldest creators
                let c = match g.below(4) {
                    0 => cs[0],
                    1 => cs[cs.len() - 1],
                    _ => *g.pick(cs),
                };
                let usage = *g.pick(&usages_of(obj));
                // a revocation can make the server create a replacement key: this event is a creator too
                creators.get_mut(obj).expect("obj").push(id);
                KEv::Revoke { id, n: nd, obj: obj.into(), usage: usage.into(), creator: c }
            }
            2 => KEv::RevokeUnknown { id, n: nd, obj: obj.into() },
            3 => KEv::Sign { id, n: nd, obj: obj.into(), usage: (*g.pick(&usages_of(obj))).into() },
            4 => KEv::Login { id, n: nd },
            5 => KEv::Reload { id, n: nd },
            6 => {
                let c = nd;
                KEv::Repl { id, c, s: 1 - c }
            }
            _ => {
                let mut choices: Vec<u64> = vec![1, 1, 59, 61, 3599, 3601];
                for at in &pending_future {
                    if *at > now {
                        choices.push(at - now - 1);
                        choices.push(at - now);
                        choices.push(at - now + 1);
                    }
                }
                if big_time {
                    choices.extend([86_400, 86_401]);
                }
                let secs = if big_time && g.chance(1, 3) { *g.pick(&[7 * 86_400 + 5, 8 * 86_400]) } else { (*g.pick(&choices)).max(1) };
                now += secs;
                KEv::Advance { id, secs }
            }
        };
        evs.push(serde_json::to_value(e).expect("json"));
        id += 1;
    }
    Plan { property: "C34".into(), seed, cfg: json!({"nodes": nodes, "tick_s": tick_s, "rs256": rs256, "oauth2": oauth2}), events: evs }
}

struct C34;

impl Scenario for C34 {
    fn property(&self) -> &'static str {
        "C34"
    }
    fn engine(&self) -> &'static str {
        "E5 idm/keys"
    }
    fn budget(&self, tier: Tier) -> Budget {
        match tier {
            Tier::Quick => Budget { runs: 200, wall_cap_s: 50 },
            Tier::Thorough => Budget { runs: 30_000, wall_cap_s: 1500 },
        }
    }
    fn generate(&self, seed: u64, tier: Tier) -> Plan {
        c34_generate(seed, tier)
    }
    fn execute(&self, plan: &Plan) -> Outcome {
        c34_execute(plan)
    }
    fn rule(&self) -> String {
        "A run = 1-2 real IdmServers on file-backed databases (node 1 refreshed from node 0), three key objects (the domain key object, a plain key object with ES256 + HS256 + A128GCM [+ RS256 in 1/6 of runs] keys, and in half of the runs an OAuth2 client) and 22-39 events (quick; up to 71 thorough): rotation requests with a validity start in the past, now, or 1 s .. 1 day ahead; revocation by key id of a key chosen by its creating event (initial, any rotation, or a replacement the server made by itself); revocation of an unknown id; sign / encrypt with the object's current key; a real password login (session token signed by the domain key); reload (restart on the same files); replication pulls in either direction (automatic refresh when demanded); clock advances aimed at pending validity starts and, in a quarter of runs, past the 7-day changelog window (revoked keys are trimmed). After EVERY event every artefact made so far is verified / decrypted / validated on every node. Ledger oracle: an artefact whose key was revoked by a request that succeeded on, or was replicated to, the node is never accepted (for the OAuth2 client also: the key is not in the advertised key set); an artefact of a key that was never revoked anywhere is accepted on every node that holds the key; each new artefact's key id (read from its header) is a non-revoked key whose validity has started and no eligible key has a later validity start. distinct_nontrivial = distinct digests of (per node and object: multiset of usage/validity-class/status, revocations known, artefact count) after each event; a run is non-trivial when at least one revocation succeeded and at least one artefact exists.".into()
    }
    fn components(&self) -> J {
        json!({
            "real": ["kanidmd_lib key providers / KeyObjectInternal (sign, verify, encipher, decipher, load, rotate, revoke), keyobject plugin, ValueSetKeyInternal (merge, trim, replication merge), IdmServer auth (login token) and token validation, OAuth2 client public key set, QueryServer + SQLite file backend, replication supplier/consumer + refresh"],
            "stub": ["replication transport (one-step pull carrying the JSON-encoded payloads)", "wall clock (ct parameter)", "OS entropy (seeded stream)", "sign/verify call sites: for plain artefacts the harness calls the key-object handle directly (hook wrappers around the crate-private trait), exactly the calls production signers and verifiers make"],
            "not_run": ["OAuth2 token issuance flows (only the client's key object and advertised key set)", "HTTP layer", "HKDF usage (has no verify operation)"]
        })
    }
    fn assumptions(&self) -> Vec<String> {
        vec![
            "a node 'has' a revocation when the request succeeded on it or it pulled (successfully) from a node that had it; a refresh replaces the consumer's keys and revocations with the supplier's, by design".into(),
            "keys with equal validity start are interchangeable for the 'newest key' rule".into(),
            "clocks of the two nodes are equal; sampled, not exhaustive".into(),
        ]
    }
}

pub fn scenarios() -> Vec<Box<dyn Scenario>> {
    vec![Box::new(C37), Box::new(C34)]
}
