//! C27 — "Authentication needs every factor, and denial is final".
use super::{cred_from, dur, mech_parse, CredKind, CredSpec, Rep, Tok, World, LOCKED_MSG, NS};
use crate::cluster::BASE_EPOCH;
use crate::driver::{Budget, Outcome, Plan, Scenario, Tier};
use crate::rng::{fnv64, uuid_for, Rng};
use kanidmd_lib::idm::authentication::AuthStep;
use kanidmd_lib::prelude::*;
use serde::{Deserialize, Serialize};
use serde_json::{json, Value as J};
use std::collections::{BTreeMap, BTreeSet};

const P: &str = "C27";
/// set-up happens here; the first event is at T1
const T0: u64 = BASE_EPOCH * NS;
const T1: u64 = (BASE_EPOCH + 2_000) * NS;

#[derive(Serialize, Deserialize, Clone, Debug)]
pub struct AcctSpec {
    pub n: usize,
    pub name: String,
    pub uuid: Uuid,
    /// none | pw | pw_totp | pw_totp_bc | pw_extotp | gen | anonymous
    pub kind: String,
    pub pw: String,
    /// per TOTP: registered by a legacy (SHA-1) authenticator
    pub totps: Vec<bool>,
    /// validity window in whole seconds since the epoch
    pub vf: Option<u64>,
    pub ex: Option<u64>,
}

#[derive(Serialize, Deserialize, Clone, Debug)]
pub struct Cfg {
    pub file_backed: bool,
    pub accounts: Vec<AcctSpec>,
}

#[derive(Serialize, Deserialize, Clone, Debug)]
#[serde(tag = "k")]
pub enum CredEv {
    #[serde(rename = "anon")]
    Anon,
    #[serde(rename = "pw")]
    Pw { v: String },
    /// code of the account's token `tok` for the time step `off` steps away from the one containing
    /// the event time, plus `delta` (mod 10^digits)
    #[serde(rename = "totp")]
    Totp { tok: usize, off: i64, delta: i64 },
    #[serde(rename = "totp_raw")]
    TotpRaw { v: u32 },
    /// the idx-th (sorted) backup code shown at registration
    #[serde(rename = "bc")]
    Bc { idx: usize },
    #[serde(rename = "bc_raw")]
    BcRaw { v: String },
}

#[derive(Serialize, Deserialize, Clone, Debug)]
#[serde(tag = "op")]
pub enum Ev {
    /// s = harness session slot, a = account index
    Init { t: u64, s: usize, a: usize, name: String, privileged: bool },
    Begin { t: u64, s: usize, a: usize, mech: String },
    Cred { t: u64, s: usize, a: usize, cred: CredEv, sem: String },
    Deliver { t: u64, n: usize },
    Restart { t: u64 },
}

impl Ev {
    fn t(&self) -> u64 {
        match self {
            Ev::Init { t, .. } | Ev::Begin { t, .. } | Ev::Cred { t, .. } | Ev::Deliver { t, .. } | Ev::Restart { t } => *t,
        }
    }
    fn kind(&self) -> String {
        match self {
            Ev::Init { privileged, .. } => format!("init:{privileged}"),
            Ev::Begin { mech, .. } => format!("begin:{mech}"),
            Ev::Cred { sem, .. } => format!("cred:{sem}"),
            Ev::Deliver { .. } => "deliver".into(),
            Ev::Restart { .. } => "restart".into(),
        }
    }
}

// ------------------------------------------------------------------------------------------------
// generation
// ------------------------------------------------------------------------------------------------

const ALNUM: &[u8] = b"abcdefghijkmnopqrstuvwxyzABCDEFGHJKLMNPQRSTUVWXYZ23456789";

fn rand_pw(g: &mut Rng) -> String {
    (0..24).map(|_| ALNUM[g.below(ALNUM.len() as u64) as usize] as char).collect()
}

fn right_mechs(kind: &str) -> Vec<&'static str> {
    match kind {
        "pw" | "gen" | "pw_extotp" => vec!["password"],
        "pw_totp" => vec!["passwordtotp"],
        "pw_totp_bc" => vec!["passwordtotp", "passwordbackupcode"],
        "anonymous" => vec!["anonymous"],
        _ => vec![],
    }
}

const MECHS: [&str; 6] = ["anonymous", "password", "passwordtotp", "passwordbackupcode", "passwordsecuritykey", "passkey"];

/// a step before slot/account/time are filled in
#[derive(Clone, Debug)]
enum St {
    Init(bool),
    Begin(String),
    Cred(CredEv, String),
}

struct Gen<'a> {
    g: &'a mut Rng,
    /// backup code indexes already used per account
    used_bc: BTreeMap<usize, Vec<usize>>,
}

impl Gen<'_> {
    fn wrong_pw(&mut self, a: &AcctSpec) -> St {
        let v = match self.g.below(6) {
            0 => String::new(),
            1 => a.pw.to_lowercase(),
            2 => format!("{} ", a.pw),
            3 => a.pw[..a.pw.len() - 1].to_string(),
            4 => a.name.clone(),
            _ => rand_pw(self.g),
        };
        let v = if v == a.pw { format!("{v}x") } else { v };
        St::Cred(CredEv::Pw { v }, "pw-wrong".into())
    }
    fn right_pw(&mut self, a: &AcctSpec) -> St {
        St::Cred(CredEv::Pw { v: a.pw.clone() }, "pw-right".into())
    }
    fn totp(&mut self, a: &AcctSpec, good: bool) -> St {
        let ntok = a.totps.len().max(1);
        let tok = self.g.below(ntok as u64) as usize;
        if good {
            let off = if self.g.chance(2, 3) { 0 } else { -1 };
            St::Cred(CredEv::Totp { tok, off, delta: 0 }, if off == 0 { "totp-current" } else { "totp-previous" }.into())
        } else {
            match self.g.below(5) {
                0 => St::Cred(CredEv::Totp { tok, off: 1, delta: 0 }, "totp-next".into()),
                1 => St::Cred(CredEv::Totp { tok, off: -2, delta: 0 }, "totp-prev2".into()),
                2 => St::Cred(CredEv::Totp { tok, off: 0, delta: if self.g.chance(1, 2) { 1 } else { -1 } }, "totp-offbyone".into()),
                3 => St::Cred(CredEv::TotpRaw { v: self.g.below(1_000_000) as u32 }, "totp-garbage".into()),
                _ => St::Cred(CredEv::TotpRaw { v: self.g.next_u64() as u32 }, "totp-garbage".into()),
            }
        }
    }
    fn bc(&mut self, a: &AcctSpec, good: bool) -> St {
        if good {
            let used = self.used_bc.entry(a.n).or_default();
            // mostly a fresh code, sometimes one used before (which is refused once its removal
            // was delivered)
            if !used.is_empty() && self.g.chance(1, 3) {
                let idx = used[self.g.below(used.len() as u64) as usize];
                St::Cred(CredEv::Bc { idx }, "bc-used".into())
            } else {
                let idx = self.g.below(8) as usize;
                used.push(idx);
                St::Cred(CredEv::Bc { idx }, "bc-listed".into())
            }
        } else {
            let v = match self.g.below(3) {
                0 => String::new(),
                1 => a.pw.clone(),
                _ => "aaaaa-bbbbb-ccccc-ddddd".to_string(),
            };
            St::Cred(CredEv::BcRaw { v }, "bc-wrong".into())
        }
    }
    fn any_cred(&mut self, a: &AcctSpec) -> St {
        match self.g.below(9) {
            0 => St::Cred(CredEv::Anon, "anon".into()),
            1 | 2 => self.right_pw(a),
            3 => self.wrong_pw(a),
            4 => self.totp(a, true),
            5 => self.totp(a, false),
            6 => self.bc(a, true),
            7 => self.bc(a, false),
            _ => self.right_pw(a),
        }
    }
    fn factors(&mut self, a: &AcctSpec, mech: &str) -> Vec<St> {
        match mech {
            "anonymous" => vec![St::Cred(CredEv::Anon, "anon".into())],
            "password" => vec![self.right_pw(a)],
            "passwordtotp" => vec![self.totp(a, true), self.right_pw(a)],
            "passwordbackupcode" => vec![self.bc(a, true), self.right_pw(a)],
            _ => vec![self.any_cred(a)],
        }
    }
    fn happy(&mut self, a: &AcctSpec) -> Vec<St> {
        let rm = right_mechs(&a.kind);
        let mech = if rm.is_empty() { "password" } else { rm[self.g.below(rm.len() as u64) as usize] };
        let mut v = vec![St::Init(self.g.chance(1, 3)), St::Begin(mech.to_string())];
        v.extend(self.factors(a, mech));
        v
    }
    fn mutate(&mut self, a: &AcctSpec, v: &mut Vec<St>) {
        let n = v.len();
        match self.g.below(10) {
            // drop a step (skip a factor, skip begin, skip init)
            0 | 1 => {
                if n > 1 {
                    let i = self.g.below(n as u64) as usize;
                    v.remove(i);
                }
            }
            // repeat a step
            2 => {
                let i = self.g.below(n as u64) as usize;
                let s = v[i].clone();
                v.insert(i + 1, s);
            }
            // swap two adjacent steps
            3 => {
                if n > 2 {
                    let i = 1 + self.g.below(n as u64 - 2) as usize;
                    v.swap(i, i + 1);
                }
            }
            // one factor wrong
            4 | 5 => {
                let idx: Vec<usize> = (0..n).filter(|i| matches!(v[*i], St::Cred(..))).collect();
                if !idx.is_empty() {
                    let i = idx[self.g.below(idx.len() as u64) as usize];
                    let wrong = match &v[i] {
                        St::Cred(CredEv::Pw { .. }, _) => self.wrong_pw(a),
                        St::Cred(CredEv::Totp { .. }, _) | St::Cred(CredEv::TotpRaw { .. }, _) => self.totp(a, false),
                        St::Cred(CredEv::Bc { .. }, _) | St::Cred(CredEv::BcRaw { .. }, _) => self.bc(a, false),
                        _ => self.any_cred(a),
                    };
                    v[i] = wrong;
                }
            }
            // another mechanism (offered or not)
            6 => {
                let m = MECHS[self.g.below(MECHS.len() as u64) as usize].to_string();
                if let Some(i) = (0..n).find(|i| matches!(v[*i], St::Begin(_))) {
                    v[i] = St::Begin(m);
                }
            }
            // a second begin somewhere after the first (mechanism switching)
            7 => {
                let m = MECHS[self.g.below(MECHS.len() as u64) as usize].to_string();
                let i = 1 + self.g.below(n as u64) as usize;
                v.insert(i.min(v.len()), St::Begin(m));
            }
            // wrong credential kind for a step
            8 => {
                let idx: Vec<usize> = (0..n).filter(|i| matches!(v[*i], St::Cred(..))).collect();
                if !idx.is_empty() {
                    let i = idx[self.g.below(idx.len() as u64) as usize];
                    v[i] = self.any_cred(a);
                }
            }
            // more steps after the end (a finished session must refuse them)
            _ => {
                let k = 1 + self.g.below(2);
                for _ in 0..k {
                    let s = if self.g.chance(1, 4) { St::Begin(MECHS[self.g.below(MECHS.len() as u64) as usize].to_string()) } else { self.any_cred(a) };
                    v.push(s);
                }
            }
        }
    }
    fn script(&mut self, a: &AcctSpec) -> Vec<St> {
        if self.g.chance(1, 7) {
            // unstructured
            let n = 2 + self.g.below(5) as usize;
            let mut v = vec![];
            for i in 0..n {
                let s = match (i, self.g.below(10)) {
                    (0, 0..=7) => St::Init(self.g.chance(1, 3)),
                    (_, 0) => St::Init(false),
                    (_, 1..=3) => St::Begin(MECHS[self.g.below(MECHS.len() as u64) as usize].to_string()),
                    _ => self.any_cred(a),
                };
                v.push(s);
            }
            return v;
        }
        let mut v = self.happy(a);
        let nm = self.g.pick_weighted(&[35, 40, 20, 5]);
        for _ in 0..nm {
            self.mutate(a, &mut v);
        }
        v.truncate(6);
        v
    }
}

pub fn generate(seed: u64, tier: Tier) -> Plan {
    let mut k = Rng::stream(seed, "c27-knobs");
    let mut g = Rng::stream(seed, "c27-gen");
    let file_backed = k.chance(1, 3);
    // accounts: anonymous + a shuffled selection of the other kinds, each with a window
    let mut kinds = vec!["none", "pw", "pw_totp", "pw_totp", "pw_totp_bc", "pw_totp_bc", "pw_extotp", "gen"];
    k.shuffle(&mut kinds);
    let n_acct = 4 + k.below(4) as usize;
    kinds.truncate(n_acct);
    kinds.push("anonymous");
    let mut accounts = vec![];
    let t1s = T1 / NS;
    for (n, kind) in kinds.iter().enumerate() {
        let (name, uuid) = if *kind == "anonymous" { ("anonymous".to_string(), uuid_for(7, 0)) } else { (format!("acct{n}"), uuid_for(7, 100 + n as u64)) };
        let totps = match *kind {
            "pw_totp" | "pw_totp_bc" | "pw_extotp" => {
                let two = k.chance(1, 4);
                let mut v = vec![k.chance(1, 4)];
                if two {
                    v.push(k.chance(1, 2));
                }
                v
            }
            _ => vec![],
        };
        let (vf, ex) = if *kind == "anonymous" {
            (None, None)
        } else {
            match k.pick_weighted(&[50, 10, 6, 22, 9, 3]) {
                0 => (None, None),
                1 => (Some(t1s + k.range(5, 150)), None),
                2 => (None, Some(t1s - k.range(1, 5000))),
                3 => (None, Some(t1s + k.range(10, 300))),
                4 => {
                    let a = t1s + k.range(5, 100);
                    (Some(a), Some(a + k.range(5, 200)))
                }
                _ => {
                    let a = t1s + k.range(50, 300);
                    (Some(a), Some(a - k.range(1, 40)))
                }
            }
        };
        accounts.push(AcctSpec { n, name, uuid, kind: kind.to_string(), pw: rand_pw(&mut k), totps, vf, ex });
    }
    // window boundaries in the run's horizon (targets for clock placement)
    let mut bounds: Vec<u64> = accounts.iter().flat_map(|a| [a.vf, a.ex]).flatten().filter(|b| *b > t1s).map(|b| b * NS).collect();
    bounds.sort();

    let n_sessions = if tier == Tier::Quick { 10 + k.below(14) as usize } else { 10 + k.below(40) as usize };
    let mut gen = Gen { g: &mut g, used_bc: BTreeMap::new() };
    let mut scripts: Vec<(usize, usize, Vec<St>)> = vec![]; // (slot, account, steps)
    for s in 0..n_sessions {
        let a = gen.g.below(accounts.len() as u64) as usize;
        let sc = gen.script(&accounts[a]);
        scripts.push((s, a, sc));
    }
    // interleave: up to `width` scripts in flight
    let width = 1 + k.below(3) as usize;
    let mut pending: std::collections::VecDeque<(usize, usize, std::collections::VecDeque<St>)> = scripts.into_iter().map(|(s, a, v)| (s, a, v.into_iter().collect())).collect();
    let mut active: Vec<(usize, usize, std::collections::VecDeque<St>)> = vec![];
    let mut t = T1;
    let mut evs: Vec<Ev> = vec![];
    let restart_w = if file_backed { 3 } else { 0 };
    let g = gen.g;
    loop {
        while active.len() < width {
            match pending.pop_front() {
                Some(x) => active.push(x),
                None => break,
            }
        }
        if active.is_empty() {
            break;
        }
        // clock
        let gap = match g.pick_weighted(&[8, 4, 8, 32, 24, 12, 5, 1, 1, 4]) {
            0 => 0,
            1 => 1,
            2 => g.below(NS),
            3 => NS + g.below(NS),
            4 => 2 * NS + g.below(4 * NS),
            5 => 6 * NS + g.below(9 * NS),
            6 => 30 * NS + g.below(90 * NS),
            7 => 301 * NS + g.below(30 * NS),
            8 => 86_400 * NS + g.below(86_400 * NS),
            _ => {
                // land on / next to the next validity boundary
                match bounds.iter().find(|b| **b > t) {
                    Some(b) => {
                        let target = match g.below(4) {
                            0 => b.saturating_sub(NS),
                            1 => *b,
                            2 => b + 1,
                            _ => b + NS,
                        };
                        target.saturating_sub(t)
                    }
                    None => NS,
                }
            }
        };
        t += gap;
        // side events
        match g.pick_weighted(&[100, 10, restart_w]) {
            1 => {
                evs.push(Ev::Deliver { t, n: 1 + g.below(4) as usize });
                continue;
            }
            2 => {
                evs.push(Ev::Restart { t });
                continue;
            }
            _ => {}
        }
        let i = g.below(active.len() as u64) as usize;
        let (s, a, _) = (active[i].0, active[i].1, ());
        let Some(step) = active[i].2.pop_front() else {
            active.remove(i);
            continue;
        };
        if active[i].2.is_empty() {
            active.remove(i);
        }
        let ev = match step {
            St::Init(p) => Ev::Init { t, s, a, name: accounts[a].name.clone(), privileged: p },
            St::Begin(mech) => Ev::Begin { t, s, a, mech },
            St::Cred(cred, sem) => Ev::Cred { t, s, a, cred, sem },
        };
        evs.push(ev);
    }
    evs.push(Ev::Deliver { t: t + NS, n: 64 });
    let events = evs
        .into_iter()
        .enumerate()
        .map(|(i, e)| {
            let mut v = serde_json::to_value(&e).expect("json");
            v["id"] = json!(i as u64 + 1);
            v
        })
        .collect();
    Plan { property: P.into(), seed, cfg: serde_json::to_value(Cfg { file_backed, accounts }).expect("json"), events }
}

// ------------------------------------------------------------------------------------------------
// model
// ------------------------------------------------------------------------------------------------

struct Acct {
    spec: AcctSpec,
    toks: Vec<Tok>,
    bc_orig: Vec<String>,
    bc_live: BTreeSet<String>,
}

impl Acct {
    fn mfa(&self) -> bool {
        !self.toks.is_empty()
    }
    /// kanidm's convention: both bounds inclusive
    fn in_window(&self, t: u64) -> bool {
        self.spec.vf.map(|v| v as u128 * NS as u128 <= t as u128).unwrap_or(true) && self.spec.ex.map(|e| t as u128 <= e as u128 * NS as u128).unwrap_or(true)
    }
}

#[derive(Clone, Copy, Debug, PartialEq, Eq)]
enum Phase {
    /// the server offered mechanisms
    Choose,
    InProgress,
    Finished,
}

struct Sess {
    acct: usize,
    sid: Uuid,
    epoch: u32,
    phase: Phase,
    /// how it finished: "denied" | "success"
    how: &'static str,
    mech: String,
    /// the server accepted a second-factor step in this session
    mfa_seen: bool,
    /// ... and the harness model agrees that the factor presented was valid
    mfa_ok: bool,
    in_window_at_init: bool,
    bc_snapshot: BTreeSet<String>,
    successes: u32,
    init_t: u64,
    offered: Vec<String>,
}

struct Exec {
    w: World,
    accts: Vec<Acct>,
    sess: BTreeMap<usize, Sess>,
}

fn resolve_cred(a: &Acct, c: &CredEv, t: u64) -> CredKind {
    match c {
        CredEv::Anon => CredKind::Anon,
        CredEv::Pw { v } => CredKind::Pw(v.clone()),
        CredEv::TotpRaw { v } => CredKind::Totp(*v),
        CredEv::Totp { tok, off, delta } => match a.toks.get(*tok % a.toks.len().max(1)) {
            Some(tk) => {
                let c = (tk.counter(t) as i128 + *off as i128).max(0) as u64;
                let m = super::rfc::pow10(tk.digits) as i128;
                let v = (tk.code_at_counter(c) as i128 + *delta as i128).rem_euclid(m);
                CredKind::Totp(v as u32)
            }
            // the account has no token: any number will do
            None => CredKind::Totp(((*off + 7) * 100_003 + *delta).unsigned_abs() as u32 % 1_000_000),
        },
        CredEv::Bc { idx } => match a.bc_orig.get(*idx % a.bc_orig.len().max(1)) {
            Some(s) => CredKind::Bc(s.clone()),
            None => CredKind::Bc(format!("zzzzz-zzzzz-zzzzz-{idx:05}")),
        },
        CredEv::BcRaw { v } => CredKind::Bc(v.clone()),
    }
}

impl Exec {
    fn setup(plan: &Plan, cfg: &Cfg) -> Result<Exec, String> {
        let mut w = World::new(plan.seed, cfg.file_backed, T0, "c27")?;
        w.entropy(0xacc0_0000);
        w.relax_policy(T0 + NS)?;
        let mut accts = vec![];
        for a in &cfg.accounts {
            w.entropy(0xacc0_0001 + a.n as u64);
            let t = T0 + (10 + 10 * a.n as u64) * NS;
            let mut toks = vec![];
            let mut bc = vec![];
            match a.kind.as_str() {
                "anonymous" => {}
                "none" => w.create_person(t, a.uuid, &a.name)?,
                "gen" => {
                    w.create_person(t, a.uuid, &a.name)?;
                    w.recover(t + NS, &a.name, &a.pw)?;
                }
                kind => {
                    w.create_person(t, a.uuid, &a.name)?;
                    let spec = CredSpec { pw: a.pw.clone(), totps: a.totps.clone(), backup: kind == "pw_totp_bc", remove_totp: kind == "pw_extotp" };
                    let out = w.cred_update(t + NS, a.uuid, &spec)?;
                    toks = out.toks;
                    bc = out.backup;
                }
            }
            if a.kind != "anonymous" && (a.vf.is_some() || a.ex.is_some()) {
                w.set_window(t + 3 * NS, a.uuid, a.vf, a.ex)?;
            }
            let bc_live = bc.iter().cloned().collect();
            accts.push(Acct { spec: a.clone(), toks, bc_orig: bc, bc_live });
        }
        for p in [
            "success.anonymous", "success.password", "success.generated", "success.passwordtotp", "success.passwordbackupcode", "success.sha1-legacy-totp", "success.previous-window-totp",
            "denied.softlock", "denied.at-init.outside-window", "denied.at-init.no-credentials", "refused.mech-not-offered", "denied.wrong-factor", "denied.wrong-cred-kind",
            "refused.step-on-finished-session", "refused.step-after-restart", "refused.step-after-session-timeout", "refused.cred-before-begin", "refused.second-begin",
            "refused.used-backup-code-after-removal", "refused.password-first-on-mfa", "mfa-account.password-mech-requested", "success.expire-passed-mid-session",
        ] {
            w.out.probe0(p);
        }
        Ok(Exec { w, accts, sess: BTreeMap::new() })
    }

    fn viol(&mut self, oracle: &str, sig: String, summary: String, step: usize) {
        self.w.violate(P, oracle, &sig, summary, step);
    }

    /// Checks that apply to every reply of a step aimed at session slot `s`.
    fn finality(&mut self, s: usize, what: &str, rep: &Rep, step: usize, t: u64) {
        let Some((se_epoch, se_phase, se_how, se_acct, se_init_t)) = self.sess.get(&s).map(|se| (se.epoch, se.phase, se.how, se.acct, se.init_t)) else { return };
        let dead = se_epoch != self.w.epoch;
        if dead || se_phase == Phase::Finished {
            let after = if dead { "restart" } else { se_how };
            if rep.accepted() {
                let sig = format!("step accepted after {after}; step={what}; reply={}", rep.short());
                let kind = self.accts[se_acct].spec.kind.clone();
                self.viol("denial-is-final", sig, format!("session slot {s} (account kind {kind}) was finished by {after}, yet a later {what} step at t={t} was answered {}", rep.cat()), step);
            } else if dead {
                self.w.out.probe("refused.step-after-restart");
            } else {
                self.w.out.probe("refused.step-on-finished-session");
            }
        } else if !rep.accepted() && t.saturating_sub(se_init_t) > 300 * NS && matches!(rep, Rep::Err(_)) {
            self.w.out.probe("refused.step-after-session-timeout");
        }
    }

    fn apply(&mut self, i: usize, id: u64, ev: &Ev) {
        let t = ev.t();
        self.w.entropy(id);
        self.w.note_time(t);
        self.w.kind(&ev.kind());
        match ev {
            Ev::Restart { t } => {
                if let Err(e) = self.w.restart(*t) {
                    self.w.out.harness_error = Some(format!("restart: {e}"));
                }
                self.w.out.chain(fnv64(b"restart"));
            }
            Ev::Deliver { t, n } => {
                for (u, code) in self.w.deliver(*t, *n) {
                    for a in self.accts.iter_mut().filter(|a| a.spec.uuid == u) {
                        a.bc_live.remove(&code);
                    }
                }
            }
            Ev::Init { t, s, a, name, privileged } => {
                let (rep, sid) = self.w.auth_step(*t, None, World::init_step(name, *privileged));
                let Some(acct) = self.accts.get(*a) else { return };
                let inw = acct.in_window(*t);
                let kind = acct.spec.kind.clone();
                match &rep {
                    Rep::Choose(mechs) => {
                        if acct.mfa() && mechs.iter().any(|m| m == "password") {
                            self.viol("no-password-only-for-mfa-account", format!("password mechanism offered at init; acct={kind}"), format!("account {name} has a TOTP on its password credential but init offered {mechs:?}"), i);
                        }
                        let snap = self.accts[*a].bc_live.clone();
                        if let Some(sid) = sid {
                            self.sess.insert(*s, Sess { acct: *a, sid, epoch: self.w.epoch, phase: Phase::Choose, how: "", mech: String::new(), mfa_seen: false, mfa_ok: false, in_window_at_init: inw, bc_snapshot: snap, successes: 0, init_t: *t, offered: mechs.clone() });
                        }
                    }
                    Rep::Denied(m) => {
                        self.sess.remove(s);
                        if !inw {
                            self.w.out.probe("denied.at-init.outside-window");
                        } else if m.contains("invalid credential state") {
                            self.w.out.probe("denied.at-init.no-credentials");
                        }
                    }
                    Rep::Success | Rep::Continue(_) | Rep::External => {
                        self.viol("token-needs-every-factor", format!("init answered {}; acct={kind}", rep.short()), format!("init for {name} answered {}", rep.cat()), i);
                    }
                    Rep::Err(_) => {
                        self.sess.remove(s);
                    }
                }
                self.w.out.chain(fnv64(format!("init {a} {}", rep.cat()).as_bytes()));
                self.w.state(&format!("init {kind} win={inw} {}", rep.cat()));
            }
            Ev::Begin { t, s, a: _, mech } => {
                let sid = self.sess.get(s).map(|x| x.sid).unwrap_or_else(|| uuid_for(9, *s as u64));
                let (rep, _) = self.w.auth_step(*t, Some(sid), AuthStep::Begin(mech_parse(mech)));
                self.finality(*s, "begin", &rep, i, *t);
                let epoch = self.w.epoch;
                let mut v: Option<(String, String)> = None;
                let mut kind = String::from("-");
                if let Some(se) = self.sess.get_mut(s) {
                    let acct = &self.accts[se.acct];
                    kind = acct.spec.kind.clone();
                    let live = se.epoch == epoch && se.phase != Phase::Finished;
                    if mech == "password" && acct.mfa() {
                        self.w.out.probe("mfa-account.password-mech-requested");
                    }
                    match &rep {
                        Rep::Continue(_) | Rep::External | Rep::Choose(_) | Rep::Success => {
                            if mech == "password" && acct.mfa() {
                                v = Some((format!("begin(password) accepted; acct={kind}"), format!("account {} has a TOTP on its password credential but begin(password) was answered {}", acct.spec.name, rep.cat())));
                            }
                            if matches!(rep, Rep::Success) {
                                v = Some((format!("begin answered success; mech={mech}; acct={kind}"), format!("begin({mech}) answered success for {}", acct.spec.name)));
                            }
                            if live {
                                // (a begin accepted while in progress restarts the factor count)
                                se.phase = Phase::InProgress;
                                se.mech = mech.clone();
                                se.mfa_seen = false;
                                se.mfa_ok = false;
                            }
                        }
                        Rep::Denied(m) => {
                            if live {
                                se.phase = Phase::Finished;
                                se.how = "denied";
                            }
                            if m == LOCKED_MSG {
                                self.w.out.probe("denied.softlock");
                            } else {
                                self.w.out.probe("denied.at-begin.other");
                            }
                        }
                        Rep::Err(_) => {
                            if live && se.phase == Phase::InProgress {
                                self.w.out.probe("refused.second-begin");
                            } else if live && se.phase == Phase::Choose && !se.offered.contains(mech) {
                                self.w.out.probe("refused.mech-not-offered");
                            }
                        }
                    }
                }
                if let Some((sig, sum)) = v {
                    let oracle = if sig.starts_with("begin(password)") { "no-password-only-for-mfa-account" } else { "token-needs-every-factor" };
                    self.viol(oracle, sig, sum, i);
                }
                self.w.out.chain(fnv64(format!("begin {s} {mech} {}", rep.cat()).as_bytes()));
                self.w.state(&format!("begin {kind} {mech} {}", rep.cat()));
            }
            Ev::Cred { t, s, a, cred, sem } => {
                let Some(acct) = self.accts.get(*a) else { return };
                let ck = resolve_cred(acct, cred, *t);
                let sid = self.sess.get(s).map(|x| x.sid).unwrap_or_else(|| uuid_for(9, *s as u64));
                let (rep, _) = self.w.auth_step(*t, Some(sid), AuthStep::Cred(cred_from(ck.clone())));
                self.finality(*s, "cred", &rep, i, *t);
                let epoch = self.w.epoch;
                let mut viols: Vec<(&'static str, String, String)> = vec![];
                let mut kind = String::from("-");
                let mut phase_before = String::from("none");
                if let Some(se) = self.sess.get_mut(s) {
                    let acct = &self.accts[se.acct];
                    kind = acct.spec.kind.clone();
                    phase_before = format!("{:?}/{}/{}", se.phase, se.mech, se.mfa_seen);
                    let live = se.epoch == epoch && se.phase != Phase::Finished;
                    // does the harness model consider this factor valid?
                    let pw_ok = matches!(&ck, CredKind::Pw(p) if *p == acct.spec.pw && acct.spec.kind != "none" && acct.spec.kind != "anonymous");
                    let totp_ok = matches!(&ck, CredKind::Totp(v) if acct.toks.iter().any(|tk| tk.model_accepts(*v, *t)));
                    let bc_ok = matches!(&ck, CredKind::Bc(c) if se.bc_snapshot.contains(c));
                    match &rep {
                        Rep::Continue(_) => {
                            if live && se.phase == Phase::InProgress {
                                se.mfa_seen = true;
                                se.mfa_ok = match se.mech.as_str() {
                                    "passwordtotp" => totp_ok,
                                    "passwordbackupcode" => bc_ok,
                                    _ => false,
                                };
                            }
                        }
                        Rep::Success => {
                            se.successes += 1;
                            let mut missing: Vec<&str> = vec![];
                            if !live {
                                // reported by `finality`; not a factor question
                            } else if se.phase != Phase::InProgress {
                                missing.push("no-mechanism-begun");
                            } else {
                                match se.mech.as_str() {
                                    "anonymous" => {
                                        if !(acct.spec.kind == "anonymous" && matches!(ck, CredKind::Anon)) {
                                            missing.push("not-the-anonymous-account-or-credential");
                                        }
                                    }
                                    "password" => {
                                        if !pw_ok {
                                            missing.push("password-not-verified");
                                        }
                                        if acct.mfa() {
                                            viols.push(("no-password-only-for-mfa-account", format!("password-only success; acct={kind}"), format!("account {} has a TOTP configured but a password-only session succeeded", acct.spec.name)));
                                        }
                                    }
                                    "passwordtotp" | "passwordbackupcode" => {
                                        if !se.mfa_seen {
                                            missing.push("second-factor-never-presented");
                                        } else if !se.mfa_ok {
                                            missing.push("second-factor-not-valid");
                                        }
                                        if !pw_ok {
                                            missing.push("password-not-verified");
                                        }
                                    }
                                    _ => missing.push("mechanism-without-model"),
                                }
                            }
                            if !missing.is_empty() {
                                viols.push(("token-needs-every-factor", format!("mech={}; acct={kind}; missing={}", se.mech, missing.join("+")), format!("session slot {s} of {} ({kind}) got a token at t={t} on step {sem}, mechanism '{}', but: {}", acct.spec.name, se.mech, missing.join(", "))));
                            }
                            if se.successes > 1 {
                                viols.push(("denial-is-final", "second success on one session".into(), format!("session slot {s} succeeded {} times", se.successes)));
                            }
                            if !acct.in_window(*t) {
                                let at_init = if se.in_window_at_init { "inside" } else { "outside" };
                                viols.push(("validity-window", format!("token issued outside the validity window; at-init={at_init}"), format!("account {} valid_from={:?} expire={:?} (s) got a token at t={t} ns; session initialised at t={} ns ({at_init} the window)", acct.spec.name, acct.spec.vf, acct.spec.ex, se.init_t)));
                                if se.in_window_at_init {
                                    self.w.out.probe("success.expire-passed-mid-session");
                                }
                            }
                            if live && missing.is_empty() {
                                let p = match (se.mech.as_str(), acct.spec.kind.as_str()) {
                                    ("password", "gen") => "success.generated".to_string(),
                                    (m, _) => format!("success.{m}"),
                                };
                                self.w.out.probe(&p);
                                if se.mech == "passwordtotp" && acct.toks.iter().any(|t| t.algo == super::rfc::Algo::Sha1) {
                                    self.w.out.probe("success.sha1-legacy-totp");
                                }
                            }
                            se.phase = Phase::Finished;
                            se.how = "success";
                        }
                        Rep::Denied(m) => {
                            if live {
                                if m == LOCKED_MSG {
                                    self.w.out.probe("denied.softlock");
                                } else if m.contains("invalid authentication method") {
                                    if se.mech != "password" && matches!(ck, CredKind::Pw(_)) && !se.mfa_seen {
                                        self.w.out.probe("refused.password-first-on-mfa");
                                    }
                                    self.w.out.probe("denied.wrong-cred-kind");
                                } else {
                                    if sem == "bc-used" && !bc_ok {
                                        self.w.out.probe("refused.used-backup-code-after-removal");
                                    }
                                    self.w.out.probe("denied.wrong-factor");
                                }
                                se.phase = Phase::Finished;
                                se.how = "denied";
                            }
                        }
                        Rep::Choose(_) | Rep::External => {}
                        Rep::Err(_) => {
                            if live && se.phase == Phase::Choose {
                                self.w.out.probe("refused.cred-before-begin");
                            }
                        }
                    }
                    if sem == "totp-previous" && matches!(rep, Rep::Continue(_)) {
                        self.w.out.probe("success.previous-window-totp");
                    }
                } else if rep.accepted() {
                    viols.push(("token-needs-every-factor", format!("step on unknown session accepted; reply={}", rep.short()), format!("cred step on a session id the server never issued was answered {}", rep.cat())));
                }
                for (o, sig, sum) in viols {
                    self.viol(o, sig, sum, i);
                }
                self.w.out.chain(fnv64(format!("cred {s} {sem} {}", rep.cat()).as_bytes()));
                self.w.state(&format!("cred {kind} {phase_before} {sem} {}", rep.cat()));
            }
        }
    }
}

pub fn execute(plan: &Plan) -> Outcome {
    if let Err(e) = super::self_test_once() {
        return Outcome { harness_error: Some(format!("RFC 6238 reference self-test failed: {e}")), ..Default::default() };
    }
    let cfg: Cfg = match serde_json::from_value(plan.cfg.clone()) {
        Ok(c) => c,
        Err(e) => return Outcome { harness_error: Some(format!("bad cfg: {e}")), ..Default::default() },
    };
    let mut ex = match Exec::setup(plan, &cfg) {
        Ok(x) => x,
        Err(e) => {
            crate::entropy::swap_stream(None);
            return Outcome { harness_error: Some(format!("C27 set-up: {e}")), ..Default::default() };
        }
    };
    ex.w.t_first = T1;
    ex.w.t_last = T1;
    let mut n = 0u64;
    for (i, ev) in plan.events.iter().enumerate() {
        let id = ev.get("id").and_then(|x| x.as_u64()).unwrap_or(i as u64);
        let Ok(e) = serde_json::from_value::<Ev>(ev.clone()) else { continue };
        ex.apply(i, id, &e);
        n += 1;
        if ex.w.out.harness_error.is_some() {
            break;
        }
    }
    ex.w.out.events_run = n;
    let succ: u64 = ex.w.out.probes.iter().filter(|(k, _)| k.starts_with("success.")).map(|(_, v)| *v).sum();
    ex.w.out.nontrivial = n >= 3 && succ >= 1 && ex.w.out.states.len() >= 4;
    let _ = dur(0);
    ex.w.finish()
}

pub struct AuthScenario {}

impl Scenario for AuthScenario {
    fn property(&self) -> &'static str {
        P
    }
    fn engine(&self) -> &'static str {
        "E5 idm/auth"
    }
    fn budget(&self, tier: Tier) -> Budget {
        match tier {
            Tier::Quick => Budget { runs: 320, wall_cap_s: 60 },
            Tier::Thorough => Budget { runs: 40_000, wall_cap_s: 1500 },
        }
    }
    fn generate(&self, seed: u64, tier: Tier) -> Plan {
        generate(seed, tier)
    }
    fn execute(&self, plan: &Plan) -> Outcome {
        execute(plan)
    }
    fn rule(&self) -> String {
        "A run = one real IdmServer (1/3 file-backed with restarts) holding 5–8 accounts (no credential, password, password+TOTP (one or two tokens, SHA-256 or SHA-1-legacy), +backup codes, TOTP removed again, generated password, anonymous) each with a validity window drawn around the simulated clock (open, not yet valid, expired, expiring mid-run, narrow, inverted); credentials registered through the real credential-update session / recover_account. 10–24 (thorough ≤ 50) session scripts of ≤ 6 steps (a correct script for the account mutated 0–3 times: drop/repeat/swap a step, wrong factor, other mechanism, second begin, wrong credential kind, extra steps after the end; 1/7 unstructured) are interleaved 1–3 at a time at nanosecond-resolution times with gaps from 0 ns to days (incl. > AUTH_SESSION_TIMEOUT and landings on validity bounds ±1 ns/±1 s), with delayed-action deliveries and restarts in between. Every reply is checked against a session model written from the statement (one-sided). distinct_nontrivial = distinct (account kind, model phase before, step meaning, categorical reply) digests; a run counts as non-trivial if it issued at least one token and reached ≥ 4 distinct digests.".into()
    }
    fn components(&self) -> J {
        super::components()
    }
    fn assumptions(&self) -> Vec<String> {
        vec![
            "credentials and validity windows do not change after set-up (except backup-code removal through the delayed queue); a session is judged against the backup codes stored when it was initialised, as kanidm snapshots the account at init".into(),
            "soft-lock refusals ('Account is temporarily locked') are refusals, never evaluated as factor checks; the oracle is one-sided (a token implies verified factors), so they cannot raise an alarm".into(),
            "'accepts no further steps' = a later step is never answered Choose/Continue/Success; an error or a Denied reply both count as refusal".into(),
            "the validity window uses kanidm's inclusive bounds; 'outside its window' is evaluated at the time of the step that returns the token".into(),
            "second factors exercised: TOTP and backup codes; webauthn mechanisms only as not-offered requests".into(),
            "sampled, not exhaustive: a clean batch is evidence, not proof".into(),
        ]
    }
}
