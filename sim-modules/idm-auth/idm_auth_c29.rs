//! C29 — "TOTP accepts exactly the current and previous code": the auth simulation with the clock
//! placed adversarially, plus direct `Totp::verify` sweeps at the same instants.
use super::rfc::{self, Algo};
use super::{cred_from, hex, unhex, CredKind, CredSpec, Rep, Tok, World, BAD_TOTP_MSG, LOCKED_MSG, NS};
use crate::cluster::BASE_EPOCH;
use crate::driver::{Budget, Outcome, Plan, Scenario, Tier};
use crate::rng::{fnv64, uuid_for, Rng};
use kanidm_proto::v1::AuthMech;
use kanidmd_lib::idm::authentication::AuthStep;
use kanidmd_lib::prelude::*;
use serde::{Deserialize, Serialize};
use serde_json::{json, Value as J};

const P: &str = "C29";
const T0: u64 = BASE_EPOCH * NS;
const T1: u64 = (BASE_EPOCH + 2_000) * NS;

#[derive(Serialize, Deserialize, Clone, Debug)]
pub struct TokAcct {
    pub name: String,
    pub uuid: Uuid,
    pub pw: String,
}

#[derive(Serialize, Deserialize, Clone, Debug)]
pub struct TokSpec {
    /// import (totp_import path, parameters from the plan) | api (credential update session,
    /// server-generated SHA-256 secret) | api_sha1 (same, registered by a legacy authenticator)
    pub via: String,
    pub algo: String,
    pub digits: u32,
    pub step: u64,
    /// hex; empty for api tokens (server-generated)
    pub secret: String,
    pub accts: Vec<TokAcct>,
}

#[derive(Serialize, Deserialize, Clone, Debug)]
pub struct Cfg {
    pub file_backed: bool,
    pub tokens: Vec<TokSpec>,
}

#[derive(Serialize, Deserialize, Clone, Debug)]
#[serde(tag = "op")]
pub enum Ev {
    /// one login attempt with a candidate code at time t. The code is
    /// (code(counter(t)+off) + delta) mod 10^digits (+ 10^digits if `xd`), or `raw`.
    Probe { t: u64, tok: usize, acct: usize, off: i64, delta: i64, xd: bool, raw: Option<u32>, finish: bool, place: String },
    /// direct `Totp::verify` / `do_totp_duration_from_epoch` sweep of the neighbourhood at time t
    Direct { t: u64, tok: usize, place: String },
    Deliver { t: u64, n: usize },
    Restart { t: u64 },
}

fn rand_pw(g: &mut Rng) -> String {
    const A: &[u8] = b"abcdefghijkmnopqrstuvwxyzABCDEFGHJKLMNPQRSTUVWXYZ23456789";
    (0..24).map(|_| A[g.below(A.len() as u64) as usize] as char).collect()
}

/// a time next to a step boundary of `step` at or after `now`
fn place(g: &mut Rng, now: u64, step: u64, jump: u64) -> (u64, &'static str) {
    let sn = step * NS;
    let k = now / sn + 1 + jump;
    let b = k * sn;
    let (t, name) = match g.pick_weighted(&[10, 14, 14, 14, 10, 10, 10, 4]) {
        0 => (b - NS, "boundary-1s"),
        1 => (b - 1, "boundary-1ns"),
        2 => (b, "boundary"),
        3 => (b + 1, "boundary+1ns"),
        4 => (b + NS, "boundary+1s"),
        5 => (b + sn / 2, "mid-step"),
        6 => (b + g.below(sn), "random-in-step"),
        _ => (b + NS - 1, "boundary+1s-1ns"),
    };
    (t.max(now), name)
}

pub fn generate(seed: u64, tier: Tier) -> Plan {
    let mut k = Rng::stream(seed, "c29-knobs");
    let mut g = Rng::stream(seed, "c29-gen");
    let file_backed = k.chance(1, 4);
    let n_tok = 2 + k.below(3) as usize;
    let mut tokens = vec![];
    for i in 0..n_tok {
        let via = match k.pick_weighted(&[70, 18, 12]) {
            0 => "import",
            1 => "api",
            _ => "api_sha1",
        };
        let (algo, digits, step, secret) = if via == "import" {
            let algo = *k.pick(&["sha1", "sha256", "sha512"]);
            let digits = if k.chance(1, 2) { 6 } else { 8 };
            let step = match k.pick_weighted(&[35, 10, 8, 8, 8, 6, 6, 5, 4, 10]) {
                0 => 30,
                1 => 60,
                2 => 31,
                3 => 45,
                4 => 90,
                5 => 120,
                6 => 300,
                7 => 3600,
                8 => 86_400,
                _ => k.range(30, 1000),
            };
            let len = match k.pick_weighted(&[10, 14, 14, 14, 8, 6, 5, 5, 5, 5, 10, 4]) {
                0 => 10,
                1 => 16,
                2 => 20,
                3 => 32,
                4 => 64,
                5 => 65,
                6 => 100,
                7 => 128,
                8 => 129,
                9 => 200,
                10 => k.range(10, 200),
                _ => k.range(0, 9),
            } as usize;
            let mut s = vec![0u8; len];
            k.fill(&mut s);
            (algo, digits, step, hex(&s))
        } else {
            (if via == "api" { "sha256" } else { "sha1" }, 6, 30, String::new())
        };
        let n_acct = 2 + k.below(3) as usize;
        let accts = (0..n_acct).map(|j| TokAcct { name: format!("tok{i}u{j}"), uuid: uuid_for(8, (i * 16 + j) as u64), pw: rand_pw(&mut k) }).collect();
        tokens.push(TokSpec { via: via.into(), algo: algo.into(), digits, step, secret, accts });
    }
    let n_ev = if tier == Tier::Quick { 40 + k.below(50) as usize } else { 40 + k.below(200) as usize };
    let mut t = T1;
    let mut evs: Vec<Ev> = vec![];
    // generator-side guess of when an account is soft-locked (coverage heuristic only)
    let mut blocked: Vec<Vec<u64>> = tokens.iter().map(|tk| vec![0; tk.accts.len()]).collect();
    let restart_w = if file_backed { 2 } else { 0 };
    for _ in 0..n_ev {
        let ti = g.below(tokens.len() as u64) as usize;
        let step = tokens[ti].step;
        match g.pick_weighted(&[70, 18, 8, restart_w]) {
            0 => {
                // stay in the neighbourhood of the current boundary most of the time
                let jump = match g.pick_weighted(&[55, 25, 10, 6, 4]) {
                    0 => 0,
                    1 => 1,
                    2 => g.range(2, 5),
                    3 => g.range(100, 5000),
                    _ => g.range(1_000_000 / step.max(1), 400_000_000 / step.max(1)),
                };
                // several probes may share one instant region: only move when the placement is later
                let (nt, pl) = if g.chance(1, 3) && !evs.is_empty() { (t + g.pick_weighted(&[3, 3, 2]) as u64 * g.below(3), "same-region") } else { place(&mut g, t, step, jump) };
                // rare backwards clock step
                let nt = if g.chance(1, 60) && nt > T1 + 10 * NS { nt - g.below(3 * NS) } else { nt };
                t = nt;
                let na = tokens[ti].accts.len();
                let acct = (0..na).min_by_key(|a| (blocked[ti][*a] > t, blocked[ti][*a])).unwrap_or(0);
                let off = [-2i64, -1, 0, 1, 2][g.pick_weighted(&[2, 5, 5, 4, 1])];
                let delta = match g.pick_weighted(&[70, 8, 8, 5, 5, 4]) {
                    0 => 0,
                    1 => 1,
                    2 => -1,
                    3 => 10,
                    4 => 100_000,
                    _ => -1000,
                };
                let xd = g.chance(1, 25);
                let raw = if g.chance(1, 20) { Some(if g.chance(1, 2) { g.below(100_000_000) as u32 } else { g.next_u64() as u32 }) } else { None };
                let likely_ok = raw.is_none() && !xd && delta == 0 && (off == 0 || off == -1);
                if !likely_ok {
                    blocked[ti][acct] = t + NS + 1;
                }
                evs.push(Ev::Probe { t, tok: ti, acct, off, delta, xd, raw, finish: g.chance(1, 2), place: pl.into() });
            }
            1 => {
                // direct sweep: at the simulated time, or near the epoch floor
                let (dt, pl) = if g.chance(1, 5) {
                    let s = step * NS;
                    (*g.pick(&[s, s + 1, 2 * s - 1, 2 * s, 2 * s + s / 2, 3 * s - 1]), "epoch-floor")
                } else {
                    let j = g.below(3);
                    let (x, p) = place(&mut g, t, step, j);
                    (x, p)
                };
                evs.push(Ev::Direct { t: dt, tok: ti, place: pl.into() });
            }
            2 => evs.push(Ev::Deliver { t, n: 1 + g.below(6) as usize }),
            _ => {
                evs.push(Ev::Restart { t });
                for b in blocked.iter_mut().flatten() {
                    *b = 0;
                }
            }
        }
    }
    let events = evs
        .into_iter()
        .enumerate()
        .map(|(i, e)| {
            let mut v = serde_json::to_value(&e).expect("json");
            v["id"] = json!(i as u64 + 1);
            v
        })
        .collect();
    Plan { property: P.into(), seed, cfg: serde_json::to_value(Cfg { file_backed, tokens }).expect("json"), events }
}

struct Exec {
    w: World,
    cfg: Cfg,
    toks: Vec<Tok>,
}

/// which nearby time steps (−3..+3) produce this code
fn relation(tk: &Tok, code: u32, t: u64) -> String {
    let c = tk.counter(t) as i128;
    let mut v = vec![];
    for off in -3i128..=3 {
        let cc = c + off;
        if cc >= 0 && tk.code_at_counter(cc as u64) == code {
            v.push(match off {
                0 => "current".to_string(),
                -1 => "previous".to_string(),
                1 => "next".to_string(),
                o => format!("step{o:+}"),
            });
        }
    }
    if v.is_empty() {
        "no-nearby-step".into()
    } else {
        v.join("|")
    }
}

fn key_class(tk: &Tok) -> &'static str {
    if tk.long_key() {
        "longer-than-hmac-block"
    } else {
        "fits-hmac-block"
    }
}

impl Exec {
    fn setup(plan: &Plan, cfg: &Cfg) -> Result<Exec, String> {
        let mut w = World::new(plan.seed, cfg.file_backed, T0, "c29")?;
        w.entropy(0xacc0_0000);
        w.relax_policy(T0 + NS)?;
        let mut toks = vec![];
        for (i, ts) in cfg.tokens.iter().enumerate() {
            let mut tok = Tok { label: "imp".into(), secret: unhex(&ts.secret), algo: Algo::parse(&ts.algo).ok_or("algo")?, digits: ts.digits, step: ts.step };
            for (j, a) in ts.accts.iter().enumerate() {
                w.entropy(0xacc0_0100 + (i * 16 + j) as u64);
                let t = T0 + (10 + 10 * (i * 16 + j) as u64) * NS;
                w.create_person(t, a.uuid, &a.name)?;
                if ts.via == "import" {
                    w.cred_update(t + NS, a.uuid, &CredSpec { pw: a.pw.clone(), ..Default::default() })?;
                    w.import_totp(t + 2 * NS, a.uuid, &tok)?;
                } else if j == 0 {
                    let out = w.cred_update(t + NS, a.uuid, &CredSpec { pw: a.pw.clone(), totps: vec![ts.via == "api_sha1"], ..Default::default() })?;
                    tok = out.toks.into_iter().next().ok_or("no token registered")?;
                } else {
                    // further accounts of an API token: the same secret through the import path
                    w.cred_update(t + NS, a.uuid, &CredSpec { pw: a.pw.clone(), ..Default::default() })?;
                    w.import_totp(t + 2 * NS, a.uuid, &tok)?;
                }
            }
            toks.push(tok);
        }
        for p in ["auth.accepted.current", "auth.accepted.previous", "auth.rejected.next", "auth.rejected.step-2", "auth.rejected.off-by-one", "auth.rejected.garbage", "auth.softlocked", "auth.finish.success", "direct.sweeps", "direct.epoch-floor", "place.boundary-1ns", "place.boundary", "place.boundary+1ns", "token.sha1", "token.sha256", "token.sha512", "token.8digits", "token.long-key", "token.api", "clock.backwards", "clock.jump>1day"] {
            w.out.probe0(p);
        }
        for tk in &toks {
            w.out.probe(&format!("token.{}", tk.algo.name()));
            if tk.digits == 8 {
                w.out.probe("token.8digits");
            }
            if tk.long_key() {
                w.out.probe("token.long-key");
            }
        }
        for ts in &cfg.tokens {
            if ts.via != "import" {
                w.out.probe("token.api");
            }
        }
        Ok(Exec { w, cfg: cfg.clone(), toks })
    }

    fn judge(&mut self, tk: &Tok, code: u32, t: u64, accepted: bool, via: &str, place: &str, step: usize) {
        let want = tk.model_accepts(code, t);
        if accepted == want {
            return;
        }
        let rel = relation(tk, code, t);
        // one signature per kind of defect: which foreign code was accepted / that a valid code was
        // rejected, and the key class (keys longer than the HMAC block take a different code path)
        let sig = if accepted { format!("accepted a code outside {{current,previous}}; code-of={rel}; secret={}", key_class(tk)) } else { format!("rejected a code in {{current,previous}}; secret={}", key_class(tk)) };
        let sum = format!(
            "{} {}-digit step={}s secret={}B: code {code} at t={}.{:09}s (counter {}, placement {place}) was {} by kanidm ({via}); RFC 6238 reference: current={} previous={} next={}",
            tk.algo.name(),
            tk.digits,
            tk.step,
            tk.secret.len(),
            t / NS,
            t % NS,
            tk.counter(t),
            if accepted { "ACCEPTED" } else { "REJECTED" },
            tk.code_at_counter(tk.counter(t)),
            tk.code_at_counter(tk.counter(t).saturating_sub(1)),
            tk.code_at_counter(tk.counter(t) + 1),
        );
        self.w.violate(P, "totp-exact-window", &sig, sum, step);
    }

    fn apply(&mut self, i: usize, id: u64, ev: &Ev) {
        self.w.entropy(id);
        match ev {
            Ev::Restart { t } => {
                self.w.kind("restart");
                if let Err(e) = self.w.restart(*t) {
                    self.w.out.harness_error = Some(format!("restart: {e}"));
                }
                self.w.out.chain(fnv64(b"restart"));
            }
            Ev::Deliver { t, n } => {
                self.w.kind("deliver");
                let _ = self.w.deliver(*t, *n);
            }
            Ev::Direct { t, tok, place } => {
                self.w.kind(&format!("direct:{place}"));
                let Some(tk) = self.toks.get(*tok).cloned() else { return };
                let Some(kt) = tk.kanidm() else { return };
                if *t / NS < tk.step {
                    return; // outside the statement's domain
                }
                let ct = super::dur(*t);
                self.w.out.probe("direct.sweeps");
                if place == "epoch-floor" {
                    self.w.out.probe("direct.epoch-floor");
                }
                let c = tk.counter(*t);
                let m = rfc::pow10(tk.digits) as i128;
                // the generated value
                let want = tk.code_at_counter(c);
                let got = kt.do_totp_duration_from_epoch(&ct);
                if got != Ok(want) {
                    let sig = format!("generated code differs from RFC 6238; secret={}", key_class(&tk));
                    self.w.violate(P, "totp-code-value", &sig, format!("{} {}-digit step={} secret={}B t={}s: kanidm {got:?}, reference {want}", tk.algo.name(), tk.digits, tk.step, tk.secret.len(), t / NS), i);
                }
                let mut cands: Vec<u32> = vec![];
                for off in -3i128..=3 {
                    let cc = c as i128 + off;
                    if cc < 0 {
                        continue;
                    }
                    let base = tk.code_at_counter(cc as u64) as i128;
                    for d in [0i128, 1, -1, 10, -10, m / 10, m] {
                        let v = if d == m { base + m } else { (base + d).rem_euclid(m) };
                        if v <= u32::MAX as i128 {
                            cands.push(v as u32);
                        }
                    }
                }
                let mut r = Rng::new(self.w.seed ^ id.wrapping_mul(0xD1B5_4A32_D192_ED03));
                for _ in 0..6 {
                    cands.push(r.below(m as u64) as u32);
                }
                cands.push(0);
                cands.push(u32::MAX);
                let mut acc = 0u32;
                for code in cands {
                    let a = kt.verify(code, ct);
                    if a {
                        acc += 1;
                    }
                    self.judge(&tk, code, *t, a, "direct", place, i);
                }
                self.w.out.chain(fnv64(format!("direct {tok} {t} {acc}").as_bytes()));
                self.w.state(&format!("direct {} {} {} long={} {place} acc={acc}", tk.algo.name(), tk.digits, tk.step.min(3601), tk.long_key()));
            }
            Ev::Probe { t, tok, acct, off, delta, xd, raw, finish, place } => {
                self.w.kind(&format!("probe:{place}:{off}:{}", *delta != 0 || *xd || raw.is_some()));
                let Some(tk) = self.toks.get(*tok).cloned() else { return };
                let Some(a) = self.cfg.tokens.get(*tok).and_then(|x| x.accts.get(*acct)).cloned() else { return };
                if *t < self.w.t_last {
                    self.w.out.probe("clock.backwards");
                    self.w.out.fault("clock-step-backwards");
                } else if *t - self.w.t_last > 86_400 * NS {
                    self.w.out.probe("clock.jump>1day");
                    self.w.out.fault("clock-jump-forward");
                }
                self.w.note_time(*t);
                self.w.t_last = *t;
                self.w.out.probe(&format!("place.{place}"));
                let m = rfc::pow10(tk.digits) as i128;
                let code: u32 = match raw {
                    Some(v) => *v,
                    None => {
                        let c = (tk.counter(*t) as i128 + *off as i128).max(0) as u64;
                        let mut v = (tk.code_at_counter(c) as i128 + *delta as i128).rem_euclid(m);
                        if *xd {
                            v += m;
                        }
                        v.min(u32::MAX as i128) as u32
                    }
                };
                let (r1, sid) = self.w.auth_step(*t, None, World::init_step(&a.name, false));
                let mut verdict = "no-session";
                let mut last = r1.clone();
                if let (Rep::Choose(_), Some(sid)) = (&r1, sid) {
                    let (r2, _) = self.w.auth_step(*t, Some(sid), AuthStep::Begin(AuthMech::PasswordTotp));
                    last = r2.clone();
                    match &r2 {
                        Rep::Continue(_) => {
                            let (r3, _) = self.w.auth_step(*t, Some(sid), AuthStep::Cred(cred_from(CredKind::Totp(code))));
                            last = r3.clone();
                            match &r3 {
                                Rep::Continue(al) if al.len() == 1 && al[0] == "password" => {
                                    verdict = "accepted";
                                    self.judge(&tk, code, *t, true, "auth", place, i);
                                    if *finish {
                                        let (r4, _) = self.w.auth_step(*t, Some(sid), AuthStep::Cred(cred_from(CredKind::Pw(a.pw.clone()))));
                                        last = r4.clone();
                                        if r4 == Rep::Success {
                                            self.w.out.probe("auth.finish.success");
                                        } else {
                                            self.w.out.harness_error = Some(format!("C29: password step after an accepted TOTP answered {}", r4.cat()));
                                        }
                                    }
                                }
                                Rep::Denied(msg) if msg == BAD_TOTP_MSG => {
                                    verdict = "rejected";
                                    self.judge(&tk, code, *t, false, "auth", place, i);
                                }
                                Rep::Denied(msg) if msg == LOCKED_MSG => verdict = "softlocked",
                                other => self.w.out.harness_error = Some(format!("C29: unexpected reply to the TOTP step: {}", other.cat())),
                            }
                        }
                        Rep::Denied(msg) if msg == LOCKED_MSG => verdict = "softlocked",
                        other => self.w.out.harness_error = Some(format!("C29: unexpected reply to begin(passwordtotp): {}", other.cat())),
                    }
                } else {
                    self.w.out.harness_error = Some(format!("C29: unexpected reply to init: {}", r1.cat()));
                }
                let rel = relation(&tk, code, *t);
                match verdict {
                    "accepted" => self.w.out.probe(&format!("auth.accepted.{}", if rel.contains("current") { "current" } else if rel.contains("previous") { "previous" } else { "other" })),
                    "rejected" => {
                        let k = if rel.contains("next") {
                            "next"
                        } else if rel.contains("step-2") {
                            "step-2"
                        } else if raw.is_some() {
                            "garbage"
                        } else if *delta != 0 || *xd {
                            "off-by-one"
                        } else {
                            "other"
                        };
                        self.w.out.probe(&format!("auth.rejected.{k}"));
                    }
                    "softlocked" => self.w.out.probe("auth.softlocked"),
                    _ => {}
                }
                self.w.out.chain(fnv64(format!("probe {tok} {acct} {t} {verdict} {}", last.cat()).as_bytes()));
                self.w.state(&format!("probe {} {} {} long={} {place} {rel} {verdict}", tk.algo.name(), tk.digits, tk.step.min(3601), tk.long_key()));
            }
        }
    }
}

pub fn execute(plan: &Plan) -> Outcome {
    if let Err(e) = super::self_test_once() {
        return Outcome { harness_error: Some(format!("RFC 6238 reference self-test failed: {e}")), ..Default::default() };
    }
    let cfg: Cfg = match serde_json::from_value(plan.cfg.clone()) {
        Ok(c) => c,
        Err(e) => return Outcome { harness_error: Some(format!("bad cfg: {e}")), ..Default::default() },
    };
    let mut ex = match Exec::setup(plan, &cfg) {
        Ok(x) => x,
        Err(e) => {
            crate::entropy::swap_stream(None);
            return Outcome { harness_error: Some(format!("C29 set-up: {e}")), ..Default::default() };
        }
    };
    ex.w.t_first = T1;
    ex.w.t_last = T1;
    let mut n = 0u64;
    for (i, ev) in plan.events.iter().enumerate() {
        let id = ev.get("id").and_then(|x| x.as_u64()).unwrap_or(i as u64);
        let Ok(e) = serde_json::from_value::<Ev>(ev.clone()) else { continue };
        ex.apply(i, id, &e);
        n += 1;
        if ex.w.out.harness_error.is_some() {
            break;
        }
    }
    ex.w.out.events_run = n;
    let acc: u64 = ex.w.out.probes.iter().filter(|(k, _)| k.starts_with("auth.accepted") || k.starts_with("auth.rejected")).map(|(_, v)| *v).sum();
    ex.w.out.nontrivial = acc >= 3;
    ex.w.finish()
}

pub struct TotpScenario {}

impl Scenario for TotpScenario {
    fn property(&self) -> &'static str {
        P
    }
    fn engine(&self) -> &'static str {
        "E5 idm/auth"
    }
    fn budget(&self, tier: Tier) -> Budget {
        match tier {
            Tier::Quick => Budget { runs: 320, wall_cap_s: 60 },
            Tier::Thorough => Budget { runs: 40_000, wall_cap_s: 1500 },
        }
    }
    fn generate(&self, seed: u64, tier: Tier) -> Plan {
        generate(seed, tier)
    }
    fn execute(&self, plan: &Plan) -> Outcome {
        execute(plan)
    }
    fn rule(&self) -> String {
        "A run = one real IdmServer (1/4 file-backed with restarts) with 2–4 TOTP tokens, each installed on 2–4 accounts: 70% through the import path (totp_import: SHA-1/256/512, 6 or 8 digits, step 30…86400 s, secret 0–200 bytes incl. block-size edges 64/65/128/129), 30% through the credential-update session (server-generated SHA-256 secret, or the SHA-1 legacy fallback). 40–90 (thorough ≤ 240) events: login attempts (init, begin(passwordtotp), TOTP step, optionally the password step) at times placed at a step boundary −1 s/−1 ns/0/+1 ns/+1 s, mid-step, random, after jumps of steps, hours or years, occasionally backwards, with a candidate code from the steps −2…+2, off by one digit, with an extra leading digit, or arbitrary; direct Totp::verify/do_totp_duration_from_epoch sweeps of the ±3-step neighbourhood (±1, ±10, top digit, extra digit, arbitrary values) at the same kind of instants and next to the epoch floor (t ≥ one step); delayed-action deliveries; restarts. Oracle: harness RFC 6238 (own HMAC and SHA-1, self-tested against RFC vectors at start-up): accepted ⇔ code ∈ {code(step containing t), code(step before)}. Soft-lock refusals carry no information and are skipped. distinct_nontrivial = distinct (algorithm, digits, step, key class, placement, relation of the code to nearby steps, verdict) digests; non-trivial run = ≥ 3 judged login attempts.".into()
    }
    fn components(&self) -> J {
        super::components()
    }
    fn assumptions(&self) -> Vec<String> {
        vec![
            "times are ≥ one step after the epoch (the statement's domain); on the auth path times are near the simulated present".into(),
            "a soft-lock refusal is not an evaluation of the code and is ignored".into(),
            "the u32 carried by AuthCredential::Totp is compared as a number: a value ≥ 10^digits is never a valid code".into(),
            "sampled, not exhaustive: a clean batch is evidence, not proof".into(),
        ]
    }
}
