// Generates the wrapper that compiles the REAL replication codec source file into this harness.
// Default source tree is /repo (its current working tree); KANIDM_SRC=<dir> points the include at a
// scratch copy for sensitivity runs only (the kanidmd_lib path dependency always stays /repo).
use std::{env, fs, path::PathBuf};

fn main() {
    let root = env::var("KANIDM_SRC").unwrap_or_else(|_| "/repo".to_string());
    let codec = format!("{}/server/core/src/repl/codec.rs", root.trim_end_matches('/'));
    println!("cargo:rerun-if-env-changed=KANIDM_SRC");
    println!("cargo:rerun-if-changed={}", codec);
    println!("cargo:rerun-if-changed=build.rs");
    if !PathBuf::from(&codec).is_file() {
        panic!("codec source not found: {}", codec);
    }
    let out = PathBuf::from(env::var("OUT_DIR").unwrap()).join("codec_mod.rs");
    fs::write(
        &out,
        format!(
            "#[allow(dead_code, unused_imports, clippy::all)]\n#[path = {:?}]\nmod codec;\npub const CODEC_SRC: &str = {:?};\n",
            codec, codec
        ),
    )
    .unwrap();
}
