//! Simulated duplex byte pipe: two one-directional channels, each with an explicit read script
//! (chunk sizes / Pending) and write script (partial writes / Pending), and a close-with-cut (EOF).
//! No time, no threads, no OS I/O: everything that happens is decided by the scripts.

use std::{
    cell::RefCell,
    collections::VecDeque,
    io,
    pin::Pin,
    rc::Rc,
    task::{Context, Poll},
};
use tokio::io::{AsyncRead, AsyncWrite, ReadBuf};

#[derive(Default)]
pub struct Chan {
    /// every byte accepted in this direction, in order (truncated by an eof cut)
    pub log: Vec<u8>,
    /// how many bytes of `log` the reader has been given
    pub delivered: usize,
    pub closed: bool,
    /// the reader performed a 0-byte read (observed EOF)
    pub eof_seen: bool,
    /// read script: 0 = Pending with an immediate self-wake, n = deliver up to n bytes
    pub rsteps: VecDeque<u32>,
    /// write script: 0 = Pending with self-wake, n = accept at most n bytes; empty = accept all
    pub wsteps: VecDeque<u32>,
    /// `delivered` after each successful non-empty read
    pub chunk_ends: Vec<usize>,
    /// poll_read calls that returned Ready (including the 0-byte EOF read)
    pub reads_done: usize,
    pub max_chunk: usize,
    pub n_rpend: u64,
    pub n_wpend: u64,
    pub n_partial_w: u64,
    pub n_read_empty: u64,
    pub n_write_after_close: u64,
    pub n_starved: u64,
}

pub type ChanRef = Rc<RefCell<Chan>>;

pub struct RdEnd(pub ChanRef);
pub struct WrEnd(pub ChanRef);
pub struct Duplex {
    pub r: RdEnd,
    pub w: WrEnd,
}

impl AsyncRead for RdEnd {
    fn poll_read(self: Pin<&mut Self>, cx: &mut Context<'_>, buf: &mut ReadBuf<'_>) -> Poll<io::Result<()>> {
        let mut c = self.0.borrow_mut();
        match c.rsteps.pop_front() {
            None => {
                // nothing scheduled: the driver decides when the next read happens
                c.n_starved += 1;
                Poll::Pending
            }
            Some(0) => {
                c.n_rpend += 1;
                cx.waker().wake_by_ref();
                Poll::Pending
            }
            Some(n) => {
                let avail = c.log.len() - c.delivered;
                if avail == 0 {
                    if c.closed {
                        c.eof_seen = true;
                        c.reads_done += 1;
                        Poll::Ready(Ok(()))
                    } else {
                        c.n_read_empty += 1;
                        Poll::Pending
                    }
                } else {
                    let k = (n as usize).min(avail).min(buf.remaining());
                    if k == 0 {
                        // caller offered no room; treat as an (impossible with FramedRead) empty read
                        return Poll::Ready(Ok(()));
                    }
                    let s = c.delivered;
                    buf.put_slice(&c.log[s..s + k]);
                    c.delivered += k;
                    let d = c.delivered;
                    c.chunk_ends.push(d);
                    c.reads_done += 1;
                    if k > c.max_chunk {
                        c.max_chunk = k;
                    }
                    Poll::Ready(Ok(()))
                }
            }
        }
    }
}

impl AsyncWrite for WrEnd {
    fn poll_write(self: Pin<&mut Self>, cx: &mut Context<'_>, buf: &[u8]) -> Poll<io::Result<usize>> {
        let mut c = self.0.borrow_mut();
        if buf.is_empty() {
            return Poll::Ready(Ok(0));
        }
        if c.closed {
            // connection already cut: the bytes go nowhere
            c.n_write_after_close += 1;
            return Poll::Ready(Ok(buf.len()));
        }
        match c.wsteps.pop_front() {
            None => {
                c.log.extend_from_slice(buf);
                Poll::Ready(Ok(buf.len()))
            }
            Some(0) => {
                c.n_wpend += 1;
                cx.waker().wake_by_ref();
                Poll::Pending
            }
            Some(n) => {
                let k = (n as usize).min(buf.len());
                if k < buf.len() {
                    c.n_partial_w += 1;
                }
                c.log.extend_from_slice(&buf[..k]);
                Poll::Ready(Ok(k))
            }
        }
    }
    fn poll_flush(self: Pin<&mut Self>, _cx: &mut Context<'_>) -> Poll<io::Result<()>> {
        Poll::Ready(Ok(()))
    }
    fn poll_shutdown(self: Pin<&mut Self>, _cx: &mut Context<'_>) -> Poll<io::Result<()>> {
        Poll::Ready(Ok(()))
    }
}

impl AsyncRead for Duplex {
    fn poll_read(mut self: Pin<&mut Self>, cx: &mut Context<'_>, buf: &mut ReadBuf<'_>) -> Poll<io::Result<()>> {
        Pin::new(&mut self.r).poll_read(cx, buf)
    }
}
impl AsyncWrite for Duplex {
    fn poll_write(mut self: Pin<&mut Self>, cx: &mut Context<'_>, buf: &[u8]) -> Poll<io::Result<usize>> {
        Pin::new(&mut self.w).poll_write(cx, buf)
    }
    fn poll_flush(mut self: Pin<&mut Self>, cx: &mut Context<'_>) -> Poll<io::Result<()>> {
        Pin::new(&mut self.w).poll_flush(cx)
    }
    fn poll_shutdown(mut self: Pin<&mut Self>, cx: &mut Context<'_>) -> Poll<io::Result<()>> {
        Pin::new(&mut self.w).poll_shutdown(cx)
    }
}
