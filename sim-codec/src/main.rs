//! C14 — "Replication wire framing survives any fragmentation".
//! Deterministic simulation of kanidm's replication codec (server/core/src/repl/codec.rs, compiled from
//! the real source file) over the real tokio_util framing types on a scripted byte pipe.

#[macro_use]
extern crate tracing;
include!(concat!(env!("OUT_DIR"), "/codec_mod.rs"));

mod gen;
mod pipe;
mod sim;

use gen::{Cfg, Ev};
use serde_json::{json, Value};
use sim::{RunResult, Stats, Violation};
use std::{
    cell::RefCell,
    collections::BTreeMap,
    panic::{catch_unwind, AssertUnwindSafe},
    sync::atomic::{AtomicU64, Ordering},
    time::Instant,
};

const PROP: &str = "C14";

thread_local! {
    static LAST_PANIC: RefCell<String> = RefCell::new(String::new());
}

fn run_caught(cfg: &Cfg, events: &[Ev]) -> RunResult {
    match catch_unwind(AssertUnwindSafe(|| sim::run(cfg, events))) {
        Ok(r) => r,
        Err(_) => {
            let msg = LAST_PANIC.with(|p| p.borrow().clone());
            // a panic raised by the harness's own code is a harness error, never a violation
            let in_harness = msg.starts_with("panicked at src/") || msg.contains("/sim-codec/src/");
            RunResult {
                violation: if in_harness { None } else { Some(Violation {
                    oracle: sim::O_SEQ,
                    signature: "decoder panicked".into(),
                    dir: 0,
                    step: 0,
                    summary: format!("panic while encoding/decoding: {}", msg),
                }) },
                harness_error: if in_harness { Some(format!("harness panic: {}", msg)) } else { None },
                stats: Stats::default(),
                digest: 0xdead,
                shape: 0xdead,
                nontrivial: true,
                outs: [Vec::new(), Vec::new()],
                expected: [String::new(), String::new()],
            }
        }
    }
}

struct Plan {
    pairs: Vec<gen::SysPair>,
    sys_n: u64,
    verif_seed: u64,
}
impl Plan {
    fn new(verif_seed: u64) -> Plan {
        let (pairs, sys_n) = gen::sys_pairs();
        Plan { pairs, sys_n, verif_seed }
    }
    fn seed_of(&self, i: u64) -> u64 {
        self.verif_seed.wrapping_mul(1 << 32).wrapping_add(i)
    }
    fn case(&self, i: u64) -> (Cfg, Vec<Ev>) {
        if i < self.sys_n {
            gen::gen_systematic(&self.pairs, i)
        } else {
            gen::gen_random(self.seed_of(i))
        }
    }
}

fn mix(i: u64, d: u64) -> u64 {
    let mut h = sim::Fnv::new();
    h.u(i);
    h.u(d);
    h.0
}

#[derive(Default)]
struct WorkerOut {
    stats: Stats,
    runs: u64,
    nontrivial_runs: u64,
    scen: Vec<u64>,
    shapes: Vec<u64>,
    batch_sum: u64,
    batch_xor: u64,
    viol: BTreeMap<(String, String), (u64, u64)>, // (oracle, signature) -> (min run index, count)
    viol_runs: u64,
    harness: Option<String>,
    digests: Vec<(u64, u64)>,
}

fn compact(v: &mut Vec<u64>) {
    v.sort_unstable();
    v.dedup();
}

fn worker(plan: &Plan, next: &AtomicU64, total: u64, t0: Instant, cap_s: f64, sample_mask: u64, keep_digests: bool) -> WorkerOut {
    let mut w = WorkerOut::default();
    const BLOCK: u64 = 512;
    let mut next_compact = 4_000_000usize;
    loop {
        let start = next.fetch_add(BLOCK, Ordering::Relaxed);
        if start >= total || t0.elapsed().as_secs_f64() > cap_s {
            break;
        }
        for i in start..(start + BLOCK).min(total) {
            let (cfg, events) = plan.case(i);
            let r = run_caught(&cfg, &events);
            if let Some(h) = r.harness_error {
                w.harness.get_or_insert(format!("run {}: {}", i, h));
                continue;
            }
            w.runs += 1;
            w.stats.merge(&r.stats);
            let m = mix(i, r.digest);
            w.batch_sum = w.batch_sum.wrapping_add(m);
            w.batch_xor ^= m;
            if keep_digests {
                w.digests.push((i, r.digest));
            }
            if r.nontrivial {
                w.nontrivial_runs += 1;
                let sd = sim::scenario_digest(&cfg, &events);
                if sd & sample_mask == 0 {
                    w.scen.push(sd);
                }
            }
            w.shapes.push(r.shape);
            if let Some(v) = r.violation {
                w.viol_runs += 1;
                let e = w.viol.entry((v.oracle.to_string(), v.signature)).or_insert((i, 0));
                e.0 = e.0.min(i);
                e.1 += 1;
            }
        }
        if w.shapes.len() > next_compact {
            compact(&mut w.shapes);
            next_compact = w.shapes.len() * 2 + 4_000_000;
        }
    }
    compact(&mut w.shapes);
    compact(&mut w.scen);
    w
}

fn fires(cfg: &Cfg, ev: &[Ev], oracle: &str, sig: &str) -> Option<Violation> {
    let r = run_caught(cfg, ev);
    if r.harness_error.is_some() {
        return None;
    }
    r.violation.filter(|v| v.oracle == oracle && v.signature == sig)
}

/// Delta debugging on the event list: drop chunks while the same oracle + signature still fires.
fn minimise(cfg: &Cfg, events: Vec<Ev>, oracle: &str, sig: &str) -> Vec<Ev> {
    let mut cur = events;
    let mut n = 2usize;
    let mut budget = 20_000usize;
    while cur.len() >= 2 && budget > 0 {
        let chunk = (cur.len() + n - 1) / n;
        let mut reduced = false;
        let mut i = 0;
        while i * chunk < cur.len() && budget > 0 {
            let lo = i * chunk;
            let hi = (lo + chunk).min(cur.len());
            let mut cand = Vec::with_capacity(cur.len() - (hi - lo));
            cand.extend_from_slice(&cur[..lo]);
            cand.extend_from_slice(&cur[hi..]);
            budget -= 1;
            if !cand.is_empty() && fires(cfg, &cand, oracle, sig).is_some() {
                cur = cand;
                n = (n - 1).max(2);
                reduced = true;
                break;
            }
            i += 1;
        }
        if !reduced {
            if n >= cur.len() {
                break;
            }
            n = (n * 2).min(cur.len());
        }
    }
    cur
}

struct Known {
    status: String,
    oracle: String,
    signature: String,
    what: String,
}
fn known_findings() -> Vec<Known> {
    let p = std::env::var("C14_KNOWN_FINDINGS").unwrap_or("/verif/KNOWN_FINDINGS.json".into());
    let Ok(s) = std::fs::read_to_string(&p) else { return vec![] };
    let Ok(v) = serde_json::from_str::<Value>(&s) else { return vec![] };
    v["findings"]
        .as_array()
        .map(|a| {
            a.iter()
                .filter(|f| f["property"] == PROP)
                .map(|f| Known {
                    status: f["status"].as_str().unwrap_or("").into(),
                    oracle: f["oracle"].as_str().unwrap_or("").into(),
                    signature: f["signature"].as_str().unwrap_or("").into(),
                    what: f["what"].as_str().unwrap_or("").into(),
                })
                .collect()
        })
        .unwrap_or_default()
}

fn sanitize(s: &str) -> String {
    s.chars().map(|c| if c.is_ascii_alphanumeric() { c } else { '_' }).collect()
}

fn describe_outs(r: &RunResult) -> Vec<String> {
    let mut lines = Vec::new();
    for d in 0..2 {
        lines.push(format!("  dir {} ({}): expected {}", d, if d == 0 { "consumer->supplier" } else { "supplier->consumer" }, r.expected[d]));
        for (i, o) in r.outs[d].iter().enumerate() {
            let k = match &o.k {
                sim::OutK::Msg(v) => {
                    let s = v.to_string();
                    format!("Msg {}", if s.len() > 120 { format!("{}… ({} bytes)", s.chars().take(100).collect::<String>(), s.len()) } else { s })
                }
                sim::OutK::Err(e) => format!("Err({})", e),
                sim::OutK::End => "End".into(),
            };
            lines.push(format!("    out[{}] after {} bytes / {} reads: {}", i, o.delivered_at, o.reads_at, k));
        }
    }
    lines
}

fn cmd_replay(path: &str) -> i32 {
    let s = match std::fs::read_to_string(path) {
        Ok(s) => s,
        Err(e) => {
            println!("HARNESS-ERROR cannot read replay file {}: {}", path, e);
            return 2;
        }
    };
    let v: Value = match serde_json::from_str(&s) {
        Ok(v) => v,
        Err(e) => {
            println!("HARNESS-ERROR replay file is not JSON: {}", e);
            return 2;
        }
    };
    let cfg = match Cfg::from_json(&v["cfg"]) {
        Ok(c) => c,
        Err(e) => {
            println!("HARNESS-ERROR replay cfg: {}", e);
            return 2;
        }
    };
    let mut events = Vec::new();
    for e in v["events"].as_array().cloned().unwrap_or_default() {
        match Ev::from_json(&e) {
            Ok(e) => events.push(e),
            Err(m) => {
                println!("HARNESS-ERROR replay event: {}", m);
                return 2;
            }
        }
    }
    let oracle = v["oracle"].as_str().unwrap_or("");
    let sig = v["signature"].as_str().unwrap_or("");
    println!("replay {}: property={} oracle={} signature={:?} codec={}", path, PROP, oracle, sig, CODEC_SRC);
    println!("  cfg {} ; {} events", cfg.to_json(), events.len());
    let r = run_caught(&cfg, &events);
    if let Some(h) = &r.harness_error {
        println!("HARNESS-ERROR {}", h);
        return 2;
    }
    for l in describe_outs(&r) {
        println!("{}", l);
    }
    match &r.violation {
        Some(x) if x.oracle == oracle && (sig.is_empty() || x.signature == sig) => {
            println!("REPRODUCED oracle={} signature={:?} step={} : {}", x.oracle, x.signature, x.step, x.summary);
            1
        }
        Some(x) => {
            println!("a different violation fired: oracle={} signature={:?} : {}", x.oracle, x.signature, x.summary);
            if oracle.is_empty() {
                1
            } else {
                0
            }
        }
        None => {
            println!("no violation: the property held on this run");
            0
        }
    }
}

fn env_u64(k: &str, d: u64) -> u64 {
    std::env::var(k).ok().and_then(|s| s.parse().ok()).unwrap_or(d)
}

fn run_batch(plan: &Plan, total: u64, workers: usize, cap_s: f64, sample_mask: u64, keep_digests: bool) -> Vec<WorkerOut> {
    let next = AtomicU64::new(0);
    let t0 = Instant::now();
    std::thread::scope(|s| {
        let hs: Vec<_> = (0..workers).map(|_| s.spawn(|| worker(plan, &next, total, t0, cap_s, sample_mask, keep_digests))).collect();
        hs.into_iter().map(|h| h.join().expect("worker")).collect()
    })
}

fn cmd_digests(n: u64, workers: usize) -> i32 {
    // per-run trace digests of the first n systematic and the first n random runs
    let plan = Plan::new(env_u64("VERIF_SEED", 1));
    let mut idx: Vec<u64> = (0..n.min(plan.sys_n)).collect();
    idx.extend(plan.sys_n..plan.sys_n + n);
    let next = AtomicU64::new(0);
    let mut all: Vec<(u64, u64, bool)> = std::thread::scope(|s| {
        let hs: Vec<_> = (0..workers)
            .map(|_| {
                s.spawn(|| {
                    let mut out = Vec::new();
                    loop {
                        let j = next.fetch_add(1, Ordering::Relaxed) as usize;
                        if j >= idx.len() {
                            break;
                        }
                        let (cfg, ev) = plan.case(idx[j]);
                        let r = run_caught(&cfg, &ev);
                        out.push((idx[j], r.digest ^ sim::scenario_digest(&cfg, &ev).rotate_left(17), r.violation.is_some()));
                    }
                    out
                })
            })
            .collect();
        hs.into_iter().flat_map(|h| h.join().expect("worker")).collect()
    });
    all.sort();
    for (i, d, v) in all {
        println!("{} {:016x} {}", i, d, if v { "V" } else { "-" });
    }
    0
}

fn cmd_show(i: u64) -> i32 {
    let plan = Plan::new(env_u64("VERIF_SEED", 1));
    let (cfg, ev) = plan.case(i);
    println!("run {} seed {} cfg {}", i, plan.seed_of(i), cfg.to_json());
    for e in &ev {
        println!("  {}", e.to_json());
    }
    let r = run_caught(&cfg, &ev);
    for l in describe_outs(&r) {
        println!("{}", l);
    }
    println!("violation: {:?}", r.violation);
    println!("harness_error: {:?}", r.harness_error);
    0
}

fn cmd_check(tier: &str) -> i32 {
    let t0 = Instant::now();
    let verif_seed = env_u64("VERIF_SEED", 1);
    let plan = Plan::new(verif_seed);
    let workers = env_u64("C14_WORKERS", std::thread::available_parallelism().map(|n| n.get() as u64).unwrap_or(8).min(16)) as usize;
    let (def_runs, def_cap, sample_shift) = if tier == "thorough" { (40_000_000u64, 840.0, 0u32) } else { (600_000u64, 75.0, 0u32) };
    let random_runs = env_u64("C14_RUNS", def_runs);
    let cap_s = std::env::var("C14_WALL_CAP_S").ok().and_then(|s| s.parse().ok()).unwrap_or(def_cap);
    let total = plan.sys_n + random_runs;
    let sample_mask = (1u64 << sample_shift) - 1;
    let evidence_path = std::env::var("C14_EVIDENCE").unwrap_or(format!("/verif/evidence/{}.json", PROP));
    let replay_dir = std::env::var("C14_REPLAY_DIR").unwrap_or(format!("/verif/replays/{}", PROP));

    let outs = run_batch(&plan, total, workers, cap_s, sample_mask, false);

    let mut stats = Stats::default();
    let (mut runs, mut nontrivial_runs, mut viol_runs) = (0u64, 0u64, 0u64);
    let (mut bsum, mut bxor) = (0u64, 0u64);
    let mut scen = Vec::new();
    let mut shapes = Vec::new();
    let mut viol: BTreeMap<(String, String), (u64, u64)> = BTreeMap::new();
    let mut harness: Option<String> = None;
    for w in outs {
        stats.merge(&w.stats);
        runs += w.runs;
        nontrivial_runs += w.nontrivial_runs;
        viol_runs += w.viol_runs;
        bsum = bsum.wrapping_add(w.batch_sum);
        bxor ^= w.batch_xor;
        scen.extend(w.scen);
        shapes.extend(w.shapes);
        for (k, (i, c)) in w.viol {
            let e = viol.entry(k).or_insert((i, 0));
            e.0 = e.0.min(i);
            e.1 += c;
        }
        if harness.is_none() {
            harness = w.harness;
        }
    }
    compact(&mut scen);
    compact(&mut shapes);
    let batch_wall = t0.elapsed().as_secs_f64();
    if let Some(h) = harness {
        println!("HARNESS-ERROR {}", h);
        return 2;
    }
    let capped = runs < total;

    // violations: minimise, write replay, confirm in a fresh process
    let known = known_findings();
    let mut ordered: Vec<((String, String), (u64, u64))> = viol.into_iter().collect();
    ordered.sort_by_key(|(_, (i, _))| *i);
    let mut reported: Vec<Value> = Vec::new();
    let mut known_hit: Vec<String> = Vec::new();
    let mut first_unknown: Option<String> = None;
    let mut unknown_kinds = 0u64;
    let mut harness_fail: Option<String> = None;
    for (n, ((oracle, sig), (i, count))) in ordered.iter().enumerate() {
        let is_known = known.iter().find(|k| k.status == "known" && k.oracle == *oracle && k.signature == *sig);
        if n >= 12 && (first_unknown.is_some() || is_known.is_some()) {
            reported.push(json!({"oracle": oracle, "signature": sig, "first_run": i, "runs": count, "replay": null}));
            if is_known.is_none() {
                unknown_kinds += 1;
            }
            continue;
        }
        let (cfg, events) = plan.case(*i);
        let Some(v0) = fires(&cfg, &events, oracle, sig) else {
            harness_fail = Some(format!("run {} does not re-fire {} / {} in process", i, oracle, sig));
            break;
        };
        let n_before = events.len();
        let min = minimise(&cfg, events, oracle, sig);
        let v = fires(&cfg, &min, oracle, sig).unwrap_or(v0);
        let _ = std::fs::create_dir_all(&replay_dir);
        let path = format!("{}/{}-{}.json", replay_dir, plan.seed_of(*i), sanitize(&format!("{}-{}", oracle, sig)));
        let file = json!({
            "property": PROP,
            "oracle": oracle,
            "signature": sig,
            "seed": plan.seed_of(*i),
            "cfg": {
                "max_frame_bytes": cfg.max_frame, "drain_chunk": cfg.drain, "kind": cfg.kind,
                "verif_seed": verif_seed, "run_index": i, "tier": tier, "events_before_minimisation": n_before,
                "directions": "d=0 consumer->supplier (ConsumerCodec encodes, SupplierCodec decodes); d=1 supplier->consumer",
            },
            "events": min.iter().map(|e| e.to_json()).collect::<Vec<_>>(),
            "violation": {"step": v.step, "summary": v.summary, "direction": v.dir},
        });
        if let Err(e) = std::fs::write(&path, serde_json::to_string_pretty(&file).unwrap()) {
            harness_fail = Some(format!("cannot write {}: {}", path, e));
            break;
        }
        let st = std::process::Command::new(std::env::current_exe().unwrap()).arg("replay").arg(&path).stdout(std::process::Stdio::null()).status();
        match st.map(|s| s.code()) {
            Ok(Some(1)) => {}
            other => {
                harness_fail = Some(format!("replay {} did not reproduce in a fresh process ({:?})", path, other));
                break;
            }
        }
        reported.push(json!({"oracle": oracle, "signature": sig, "first_run": i, "runs": count, "replay": path, "summary": v.summary}));
        if let Some(k) = is_known {
            println!("KNOWN-FINDING: property={} {}", PROP, k.what);
            known_hit.push(format!("{} / {}", oracle, sig));
        } else {
            unknown_kinds += 1;
            if first_unknown.is_none() {
                first_unknown = Some(path.clone());
            } else {
                println!("also violated: oracle={} signature={:?} runs={} replay={}", oracle, sig, count, path);
            }
        }
    }
    if let Some(h) = harness_fail {
        println!("HARNESS-ERROR {}", h);
        return 2;
    }

    // evidence
    let wall = t0.elapsed().as_secs_f64();
    let mut faults = serde_json::Map::new();
    let mut probes = serde_json::Map::new();
    const FAULT_KEYS: &[&str] = &[
        "read returned Pending (self-wake)",
        "write returned Pending (self-wake)",
        "partial write accepted",
        "read attempted on empty open pipe",
        "write after close discarded",
        "connection closed (eof event)",
        "eof inside header",
        "eof inside body",
        "eof between frames (clean close)",
        "stream left open mid-frame",
        "zero-length frame reached the decoder",
        "frame with len==limit+1 reached the decoder",
        "frame with len>limit+1 reached the decoder",
        "frame claiming a huge length reached the decoder",
        "garbage json body of legal length reached the decoder",
    ];
    const PROBE_KEYS: &[&str] = &[
        "frame split inside header",
        "frame split between header and body",
        "frame split inside body",
        "frame coalesced with neighbour in one read",
        "frame delivered alone in one read",
        "valid frame with len==limit-1 decoded",
        "valid frame with len==limit decoded",
        "bad frame rejected with Err then end of stream",
        "garbage json rejected with Err",
        "decoded incremental V1 context carrying entries",
        "decoded refresh V1 context carrying entries",
        "decoded incremental request with ruv ranges",
        "decoded frame larger than the initial 8 KiB read buffer",
        "encode appended to a non-empty write buffer",
        "messages encoded",
        "messages expected (reference)",
        "messages decoded",
        "decoder returned Err",
        "stream ended (None)",
        "bytes delivered",
        "read chunks delivered",
    ];
    for k in FAULT_KEYS {
        faults.insert(k.to_string(), json!(stats.c.get(k).copied().unwrap_or(0)));
    }
    for k in PROBE_KEYS {
        probes.insert(k.to_string(), json!(stats.c.get(k).copied().unwrap_or(0)));
    }
    for (k, v) in &stats.c {
        if !FAULT_KEYS.contains(k) && !PROBE_KEYS.contains(k) {
            probes.insert(k.to_string(), json!(v));
        }
    }
    probes.insert("max read buffer len seen (bytes)".into(), json!(stats.max_read_buf));
    probes.insert("max read buffer capacity seen (bytes)".into(), json!(stats.max_read_cap));
    let at_zero: Vec<String> = faults.iter().chain(probes.iter()).filter(|(_, v)| v.as_u64() == Some(0)).map(|(k, _)| k.clone()).collect();
    let sample_idx = [plan.sys_n / 3, plan.sys_n + 1, plan.sys_n + 2];
    let samples: Vec<Value> = sample_idx
        .iter()
        .map(|&i| {
            let (cfg, ev) = plan.case(i);
            json!({"run_index": i, "seed": plan.seed_of(i), "cfg": cfg.to_json(), "n_events": ev.len(),
                   "first_events": ev.iter().take(10).map(|e| {
                        let s = e.to_json().to_string();
                        if s.len() > 300 { Value::String(format!("{}…", s.chars().take(300).collect::<String>())) } else { e.to_json() }
                   }).collect::<Vec<_>>()})
        })
        .collect();
    let distinct_nontrivial = scen.len() as u64;
    let evidence = json!({
        "property_id": PROP,
        "tier": tier,
        "seed": verif_seed,
        "level": "exploration",
        "wall_s": wall,
        "violations": unknown_kinds,
        "assumptions": [
            "the byte pipe is a simulation: reads/writes fragment, return Pending and close exactly as scripted; TLS and TCP below the framing layer are not run",
            "JSON (serde_json) and the kanidmd_lib replication message types are trusted: the reference model classifies a frame body with the same serde types; only framing is under test",
            "after a decode error the reader is polled once more (tokio_util yields end-of-stream) and then dropped, as kanidm's repl tasks do; behaviour of a caller that keeps polling a finished stream is out of scope",
            "max_frame_bytes and message sizes are scaled down (64 B .. 256 MiB limit, messages up to a few KiB); the production limit is 256 MiB",
            "sampled, not exhaustive, apart from the systematic family described in coverage.rule: a clean batch is evidence, not proof",
        ],
        "coverage": {
            "evaluations": runs,
            "distinct_nontrivial": distinct_nontrivial,
            "rule": format!("Run i < {sys} is systematic: for each of {np} ordered pairs of small messages of one direction, every split of the wire bytes into <= 3 read chunks (all 0/1/2 cut positions) followed by a clean close, and a close at every byte offset (read in one chunk and byte-by-byte). Run i >= {sys} is random from seed VERIF_SEED*2^32+i: 1-12 messages over both directions through the real encoders, optional raw frames (len limit-1/limit/limit+1, len 0, huge len, garbage JSON, trailing garbage, truncated), write script (partial writes/Pending), read script (chunk sizes 1..everything, Pending), optional close with a byte cut, then a final drain with a seeded chunk size. A run is non-trivial when at least one delivered frame was split across reads or shared a read with another frame, or a malformed/truncated frame reached the decoder, or a Pending/partial write fired. distinct_nontrivial counts distinct (cfg, event list) digests among non-trivial runs{samp}.", sys = plan.sys_n, np = plan.pairs.len(), samp = if sample_shift > 0 { format!(" restricted to the 1/{} of digest space that is stored (an exact count of that sample, hence a lower bound)", 1u64 << sample_shift) } else { String::new() }),
            "samples": samples,
            "exhaustive": false,
            "systematic_runs": plan.sys_n.min(runs),
            "random_runs": runs.saturating_sub(plan.sys_n),
            "nontrivial_runs": nontrivial_runs,
            "budget_runs": total,
            "stopped_by_wall_cap": capped,
            "simulated_runs": runs,
            "runs_per_hour": if batch_wall > 0.0 { (runs as f64 / batch_wall * 3600.0) as u64 } else { 0 },
            "simulated_time_covered_s": 0.0,
            "simulated_time_note": "the framing layer has no notion of time; schedules are sequences of read/write/Pending/close steps",
            "faults_fired": faults,
            "probes": probes,
            "probes_at_zero": at_zero,
            "distinct_schedules_or_states": shapes.len(),
            "distinct_schedules_or_states_rule": "distinct per-run shapes: for both directions the sequence of (message kind, length class vs limit, fragmentation class) of every delivered frame plus the terminal condition (clean / partial header / partial body / len 0 / over limit / garbage) and whether EOF was observed",
            "batch_digest": format!("{:016x}{:016x}", bsum, bxor),
            "workers": workers,
            "violating_runs": viol_runs,
            "violation_kinds": reported,
            "known_findings_hit": known_hit,
            "codec_source": CODEC_SRC,
            "components": {
                "real": [
                    "server/core/src/repl/codec.rs (ConsumerCodec, SupplierCodec, encode/decode_length_checked_json) compiled from the source file",
                    "kanidmd_lib::repl::proto message types (ReplRuvRange, ReplIncrementalContext incl. V1 with entries, ReplRefreshContext V1) and their serde impls",
                    "tokio_util::codec::{Framed, FramedRead, FramedWrite} 0.7.19, bytes::BytesMut, serde_json",
                ],
                "stub": [
                    "TCP+TLS connection: scripted in-memory duplex byte pipe (AsyncRead/AsyncWrite)",
                    "tokio runtime: hand-written poll loop with a flag waker",
                ],
                "not_run": ["repl_task / handle_repl_conn request handling", "TLS", "QueryServer"],
            },
        },
    });
    if let Some(dir) = std::path::Path::new(&evidence_path).parent() {
        let _ = std::fs::create_dir_all(dir);
    }
    if let Err(e) = std::fs::write(&evidence_path, serde_json::to_string_pretty(&evidence).unwrap()) {
        println!("HARNESS-ERROR cannot write evidence {}: {}", evidence_path, e);
        return 2;
    }
    println!(
        "{} {}: {} runs ({} systematic + {} random{}) in {:.1}s on {} workers, {} non-trivial, {} distinct shapes, {} violating runs in {} kind(s), batch digest {:016x}{:016x}",
        PROP,
        tier,
        runs,
        plan.sys_n.min(runs),
        runs.saturating_sub(plan.sys_n),
        if capped { ", wall cap hit" } else { "" },
        wall,
        workers,
        nontrivial_runs,
        shapes.len(),
        viol_runs,
        reported.len(),
        bsum,
        bxor
    );
    if let Some(p) = first_unknown {
        println!("VIOLATION property={} replay={}", PROP, p);
        return 1;
    }
    0
}

fn main() {
    std::panic::set_hook(Box::new(|info| {
        let s = info.to_string();
        LAST_PANIC.with(|p| *p.borrow_mut() = s);
    }));
    let args: Vec<String> = std::env::args().collect();
    let code = match args.get(1).map(|s| s.as_str()) {
        Some("check") => cmd_check(args.get(2).map(|s| s.as_str()).unwrap_or("quick")),
        Some("replay") => match args.get(2) {
            Some(p) => cmd_replay(p),
            None => {
                println!("HARNESS-ERROR replay needs a file");
                2
            }
        },
        Some("digests") => cmd_digests(args.get(2).and_then(|s| s.parse().ok()).unwrap_or(64), args.get(3).and_then(|s| s.parse().ok()).unwrap_or(1)),
        Some("show") => cmd_show(args.get(2).and_then(|s| s.parse().ok()).unwrap_or(0)),
        _ => {
            println!("usage: c14codec check <quick|thorough> | replay <file> | digests <n> <workers> | show <run index>");
            2
        }
    };
    std::process::exit(code);
}
