//! Events of a run (explicit, replayable, minimisable) and the seeded generators.

use serde_json::{json, Map, Value};

// ---------------------------------------------------------------- PRNG (xoshiro256**, splitmix seeded)
pub struct Rng {
    s: [u64; 4],
}
fn splitmix(x: &mut u64) -> u64 {
    *x = x.wrapping_add(0x9E37_79B9_7F4A_7C15);
    let mut z = *x;
    z = (z ^ (z >> 30)).wrapping_mul(0xBF58_476D_1CE4_E5B9);
    z = (z ^ (z >> 27)).wrapping_mul(0x94D0_49BB_1331_11EB);
    z ^ (z >> 31)
}
impl Rng {
    pub fn new(seed: u64) -> Self {
        let mut x = seed;
        Rng { s: [splitmix(&mut x), splitmix(&mut x), splitmix(&mut x), splitmix(&mut x)] }
    }
    pub fn next(&mut self) -> u64 {
        let r = self.s[1].wrapping_mul(5).rotate_left(7).wrapping_mul(9);
        let t = self.s[1] << 17;
        self.s[2] ^= self.s[0];
        self.s[3] ^= self.s[1];
        self.s[1] ^= self.s[2];
        self.s[0] ^= self.s[3];
        self.s[2] ^= t;
        self.s[3] = self.s[3].rotate_left(45);
        r
    }
    /// uniform in 0..n (n > 0)
    pub fn below(&mut self, n: u64) -> u64 {
        ((self.next() as u128 * n as u128) >> 64) as u64
    }
    pub fn range(&mut self, lo: u64, hi_incl: u64) -> u64 {
        lo + self.below(hi_incl - lo + 1)
    }
    pub fn chance(&mut self, pct: u64) -> bool {
        self.below(100) < pct
    }
    pub fn pick<'a, T>(&mut self, xs: &'a [T]) -> &'a T {
        &xs[self.below(xs.len() as u64) as usize]
    }
}

// ---------------------------------------------------------------- events
#[derive(Clone, Debug, PartialEq)]
pub enum Body {
    /// compact JSON of v, padded with spaces (legal JSON whitespace) or truncated to exactly n bytes
    Json { v: Value, n: usize },
    Fill { b: u8, n: usize },
    Hex(Vec<u8>),
}

/// d = 0: consumer -> supplier (requests).  d = 1: supplier -> consumer (responses).
#[derive(Clone, Debug, PartialEq)]
pub enum Ev {
    /// encode one message with the real encoder into the real Framed write buffer (no flush)
    Msg { d: u8, v: Value },
    /// flush the writer of direction d into the pipe (subject to the write script)
    Fl { d: u8 },
    /// bytes put on the wire directly (after flushing the writer): optional 8-byte BE header + body
    Raw { d: u8, hdr: Option<u64>, body: Body },
    /// write script step: the next poll_write accepts at most n bytes (0 = Pending + self-wake)
    W { d: u8, n: u32 },
    /// read script step (0 = Pending + self-wake, n = deliver up to n bytes), then poll the reader
    R { d: u8, n: u32 },
    /// close direction d after dropping the last `cut` not-yet-delivered bytes
    Eof { d: u8, cut: u32 },
}

#[derive(Clone, Debug, PartialEq)]
pub struct Cfg {
    pub max_frame: usize,
    /// chunk size of the final drain (after all events): 0 = no drain
    pub drain: u32,
    pub kind: String,
}

fn hex(b: &[u8]) -> String {
    let mut s = String::with_capacity(b.len() * 2);
    for x in b {
        s.push_str(&format!("{:02x}", x));
    }
    s
}
fn unhex(s: &str) -> Result<Vec<u8>, String> {
    if s.len() % 2 != 0 {
        return Err("odd hex".into());
    }
    (0..s.len() / 2)
        .map(|i| u8::from_str_radix(&s[2 * i..2 * i + 2], 16).map_err(|e| e.to_string()))
        .collect()
}

impl Body {
    pub fn bytes(&self) -> Vec<u8> {
        match self {
            Body::Json { v, n } => {
                let mut b = serde_json::to_vec(v).unwrap_or_default();
                b.resize(*n, b' ');
                b
            }
            Body::Fill { b, n } => vec![*b; *n],
            Body::Hex(h) => h.clone(),
        }
    }
    fn to_json(&self) -> Value {
        match self {
            Body::Json { v, n } => json!({"t":"json","v":v,"n":n}),
            Body::Fill { b, n } => json!({"t":"fill","b":b,"n":n}),
            Body::Hex(h) => json!({"t":"hex","h":hex(h)}),
        }
    }
    fn from_json(v: &Value) -> Result<Body, String> {
        let t = v["t"].as_str().ok_or("body.t")?;
        Ok(match t {
            "json" => Body::Json { v: v["v"].clone(), n: v["n"].as_u64().ok_or("body.n")? as usize },
            "fill" => Body::Fill { b: v["b"].as_u64().ok_or("body.b")? as u8, n: v["n"].as_u64().ok_or("body.n")? as usize },
            "hex" => Body::Hex(unhex(v["h"].as_str().ok_or("body.h")?)?),
            _ => return Err(format!("body kind {}", t)),
        })
    }
}

impl Ev {
    pub fn to_json(&self) -> Value {
        match self {
            Ev::Msg { d, v } => json!({"k":"msg","d":d,"v":v}),
            Ev::Fl { d } => json!({"k":"fl","d":d}),
            Ev::Raw { d, hdr, body } => json!({"k":"raw","d":d,"hdr":hdr,"body":body.to_json()}),
            Ev::W { d, n } => json!({"k":"w","d":d,"n":n}),
            Ev::R { d, n } => json!({"k":"r","d":d,"n":n}),
            Ev::Eof { d, cut } => json!({"k":"eof","d":d,"cut":cut}),
        }
    }
    pub fn from_json(v: &Value) -> Result<Ev, String> {
        let k = v["k"].as_str().ok_or("event.k")?;
        let d = v["d"].as_u64().ok_or("event.d")? as u8;
        if d > 1 {
            return Err("event.d must be 0 or 1".into());
        }
        let n = || v["n"].as_u64().ok_or("event.n").map(|x| x as u32);
        Ok(match k {
            "msg" => Ev::Msg { d, v: v["v"].clone() },
            "fl" => Ev::Fl { d },
            "raw" => Ev::Raw { d, hdr: v["hdr"].as_u64(), body: Body::from_json(&v["body"])? },
            "w" => Ev::W { d, n: n()? },
            "r" => Ev::R { d, n: n()? },
            "eof" => Ev::Eof { d, cut: v["cut"].as_u64().ok_or("event.cut")? as u32 },
            _ => return Err(format!("event kind {}", k)),
        })
    }
}

impl Cfg {
    pub fn to_json(&self) -> Value {
        json!({"max_frame_bytes": self.max_frame, "drain_chunk": self.drain, "kind": self.kind})
    }
    pub fn from_json(v: &Value) -> Result<Cfg, String> {
        Ok(Cfg {
            max_frame: v["max_frame_bytes"].as_u64().ok_or("cfg.max_frame_bytes")? as usize,
            drain: v["drain_chunk"].as_u64().ok_or("cfg.drain_chunk")? as u32,
            kind: v["kind"].as_str().unwrap_or("replay").to_string(),
        })
    }
}

// ---------------------------------------------------------------- message JSON generators
fn uuid(r: &mut Rng) -> Value {
    let a = r.next();
    let b = r.next();
    Value::String(format!(
        "{:08x}-{:04x}-{:04x}-{:04x}-{:012x}",
        (a >> 32) as u32,
        (a >> 16) as u16,
        a as u16,
        (b >> 48) as u16,
        b & 0xffff_ffff_ffff
    ))
}
fn dur(r: &mut Rng) -> Value {
    let secs = match r.below(4) {
        0 => 0,
        1 => r.below(1000),
        2 => 1_700_000_000 + r.below(100_000_000),
        _ => r.next() >> r.below(40),
    };
    json!({"secs": secs, "nanos": r.below(1_000_000_000)})
}
fn cid(r: &mut Rng) -> Value {
    json!({"t": dur(r), "s": uuid(r)})
}
fn text(r: &mut Rng) -> String {
    const PARTS: &[&str] = &[
        "a", "admin", "idm_all_persons", " ", "\"", "\\", "\n", "\t", "{", "}", "[", "]", ",", ":", "\u{0}", "\u{7f}", "é", "日本", "😀",
        "0", "00000000", "\u{1}\u{2}", "example.com", "x",
    ];
    let n = r.below(6);
    let mut s = String::new();
    for _ in 0..n {
        s.push_str(r.pick(PARTS));
    }
    s
}
fn valueset(r: &mut Rng) -> Value {
    let n = r.range(1, 3) as usize;
    match r.below(12) {
        0 => json!({"U8": (0..n).map(|_| text(r)).collect::<Vec<_>>()}),
        1 => json!({"I8": (0..n).map(|_| text(r)).collect::<Vec<_>>()}),
        2 => json!({"N8": (0..n).map(|_| text(r)).collect::<Vec<_>>()}),
        3 => json!({"UU": (0..n).map(|_| uuid(r)).collect::<Vec<_>>()}),
        4 => json!({"BO": (0..n).map(|_| r.chance(50)).collect::<Vec<_>>()}),
        5 => json!({"UI": (0..n).map(|_| r.next() as u32).collect::<Vec<_>>()}),
        6 => json!({"I64": (0..n).map(|_| r.next() as i64).collect::<Vec<_>>()}),
        7 => json!({"U64": (0..n).map(|_| r.next()).collect::<Vec<_>>()}),
        8 => json!({"RF": (0..n).map(|_| uuid(r)).collect::<Vec<_>>()}),
        9 => json!({"SY": (0..n).map(|_| r.below(40) as u16).collect::<Vec<_>>()}),
        10 => json!({"E2": (0..n).map(|_| (0..r.below(12)).map(|_| r.below(256) as u8).collect::<Vec<u8>>()).collect::<Vec<_>>()}),
        _ => json!({"EM": [text(r), (0..n).map(|_| text(r)).collect::<Vec<_>>()]}),
    }
}
fn attr_name(r: &mut Rng) -> String {
    const NAMES: &[&str] = &["name", "displayname", "uuid", "class", "member", "description", "mail", "spn", "memberof", "x_custom_attr"];
    let mut s = r.pick(NAMES).to_string();
    if r.chance(20) {
        s.push_str(&format!("_{}", r.below(100)));
    }
    s
}
fn entry(r: &mut Rng) -> Value {
    let st = if r.chance(35) {
        json!({"Tombstone": {"at": cid(r)}})
    } else {
        let mut attrs = Map::new();
        for _ in 0..r.below(5) {
            let a = if r.chance(25) { Value::Null } else { valueset(r) };
            attrs.insert(attr_name(r), json!({"cid": cid(r), "attr": a}));
        }
        json!({"Live": {"at": cid(r), "attrs": attrs}})
    };
    json!({"uuid": uuid(r), "st": st})
}
fn entries(r: &mut Rng, max: u64) -> Value {
    Value::Array((0..r.below(max + 1)).map(|_| entry(r)).collect())
}
fn anchored_ranges(r: &mut Rng) -> Value {
    let mut m = Map::new();
    for _ in 0..r.below(4) {
        let anchors: Vec<Value> = (0..r.below(4)).map(|_| dur(r)).collect();
        let k = uuid(r);
        m.insert(k.as_str().unwrap().to_string(), json!({"m": dur(r), "a": anchors, "x": dur(r)}));
    }
    Value::Object(m)
}
fn ruv_range(r: &mut Rng) -> Value {
    let n = match r.below(10) {
        0 => 0,
        1 => r.range(5, 12),
        _ => r.range(1, 4),
    };
    let mut m = Map::new();
    for _ in 0..n {
        let k = uuid(r);
        m.insert(k.as_str().unwrap().to_string(), json!({"m": dur(r), "x": dur(r)}));
    }
    json!({"V1": {"domain_uuid": uuid(r), "ranges": m}})
}

pub const INCR_UNITS: [&str; 4] = ["domainmismatch", "nochangesavailable", "refreshrequired", "unwillingtosupply"];

/// A small message of direction d (fits in 64 bytes).
pub fn small_msg(d: u8, r: &mut Rng) -> Value {
    if d == 0 {
        json!(*r.pick(&["Ping", "Refresh"]))
    } else if r.chance(30) {
        json!("Pong")
    } else {
        json!({"Incremental": *r.pick(&INCR_UNITS)})
    }
}

pub fn gen_msg(d: u8, r: &mut Rng) -> Value {
    if d == 0 {
        match r.below(10) {
            0..=2 => json!("Ping"),
            3..=4 => json!("Refresh"),
            _ => json!({"Incremental": ruv_range(r)}),
        }
    } else {
        match r.below(20) {
            0..=3 => json!("Pong"),
            4..=10 => json!({"Incremental": *r.pick(&INCR_UNITS)}),
            11..=15 => json!({"Incremental": {"v1": {
                "domain_version": r.below(20) as u32,
                "domain_patch_level": r.below(5) as u32,
                "domain_uuid": uuid(r),
                "ranges": anchored_ranges(r),
                "schema_entries": entries(r, 2),
                "meta_entries": entries(r, 2),
                "entries": entries(r, 4),
            }}}),
            _ => {
                // now and then a refresh larger than the framing layer's initial 8 KiB read buffer
                let many = if r.chance(12) { 60 } else { 4 };
                json!({"Refresh": {"v1": {
                    "domain_version": r.below(20) as u32,
                    "domain_devel": r.chance(50),
                    "domain_uuid": uuid(r),
                    "ranges": anchored_ranges(r),
                    "schema_entries": entries(r, 2),
                    "meta_entries": entries(r, 2),
                    "entries": entries(r, many),
                }}})
            }
        }
    }
}

// ---------------------------------------------------------------- random scenario
fn read_step(r: &mut Rng, regime: u64) -> u32 {
    if r.chance(10) {
        return 0; // Pending + self-wake
    }
    let reg = if regime == 4 { r.below(4) } else { regime };
    (match reg {
        0 => r.range(1, 3),
        1 => r.range(1, 16),
        2 => r.range(1, 128),
        _ => *r.pick(&[512u64, 1024, 4096, 8192, 65536, 1 << 20]),
    }) as u32
}

/// Merge lists preserving each list's order, choosing the next list at random.
fn interleave(r: &mut Rng, lists: Vec<Vec<Ev>>) -> Vec<Ev> {
    let mut its: Vec<std::vec::IntoIter<Ev>> = lists.into_iter().map(|l| l.into_iter()).collect();
    let mut left: Vec<usize> = its.iter().map(|i| i.len()).collect();
    let mut out = Vec::new();
    loop {
        let total: usize = left.iter().sum();
        if total == 0 {
            return out;
        }
        let mut x = r.below(total as u64) as usize;
        for (i, it) in its.iter_mut().enumerate() {
            if x < left[i] {
                out.push(it.next().unwrap());
                left[i] -= 1;
                break;
            }
            x -= left[i];
        }
    }
}

pub fn gen_random(seed: u64) -> (Cfg, Vec<Ev>) {
    let mut r = Rng::new(seed);
    let r = &mut r;
    let max_frame = match r.below(20) {
        0..=6 => *r.pick(&[65536usize, 1 << 20, 1 << 28]),
        7..=11 => 4096,
        _ => *r.pick(&[64usize, 96, 128, 256, 512, 1024]),
    };
    let drain = *r.pick(&[1u32, 1, 2, 3, 5, 7, 8, 9, 13, 16, 64, 4096, 1 << 20, 1 << 20]);
    let regime = r.below(5);
    let mut wr: [Vec<Ev>; 2] = [Vec::new(), Vec::new()];

    // messages through the real encoder
    let nmsg = r.range(1, 12);
    let big_ok = max_frame >= 4096;
    for _ in 0..nmsg {
        let d = r.below(2) as u8;
        let v = if big_ok || r.chance(25) { gen_msg(d, r) } else { small_msg(d, r) };
        if r.chance(15) {
            for _ in 0..r.range(1, 4) {
                let n = if r.chance(25) { 0 } else { r.range(1, 40) as u32 };
                wr[d as usize].push(Ev::W { d, n });
            }
        }
        wr[d as usize].push(Ev::Msg { d, v });
        if r.chance(55) {
            wr[d as usize].push(Ev::Fl { d });
        }
    }

    // frames with a body length around the limit (valid JSON padded with whitespace)
    if r.chance(30) && max_frame <= 4096 {
        let d = r.below(2) as u8;
        let n = max_frame - 1 + r.below(3) as usize;
        let ev = Ev::Raw { d, hdr: Some(n as u64), body: Body::Json { v: small_msg(d, r), n } };
        let pos = r.below(wr[d as usize].len() as u64 + 1) as usize;
        wr[d as usize].insert(pos, ev);
    }

    // malformed frames written straight to the wire
    if r.chance(28) {
        let d = r.below(2) as u8;
        let l = &mut wr[d as usize];
        let pos = if r.chance(60) { l.len() } else { r.below(l.len() as u64 + 1) as usize };
        let mut evs = Vec::new();
        match r.below(7) {
            0 => {
                // zero-length header, nothing / a body / a whole valid frame after it
                let body = match r.below(3) {
                    0 => Body::Hex(vec![]),
                    1 => Body::Json { v: small_msg(d, r), n: 40 },
                    _ => Body::Fill { b: b' ', n: r.below(64) as usize },
                };
                evs.push(Ev::Raw { d, hdr: Some(0), body });
                if r.chance(50) {
                    evs.push(Ev::Msg { d, v: small_msg(d, r) });
                    evs.push(Ev::Fl { d });
                }
            }
            1 => {
                // header claiming a huge length, followed by some bytes
                let h = *r.pick(&[u64::MAX, 1 << 63, 1 << 32, (1 << 32) + 6, 1 << 31, (max_frame as u64) * 2, max_frame as u64 + 2]);
                let n = (r.below(3 * max_frame as u64 + 64) as usize).min(20_000);
                evs.push(Ev::Raw { d, hdr: Some(h), body: Body::Fill { b: *r.pick(&[b' ', b'x', 0u8, b'"']), n } });
            }
            2 => {
                // over the limit by a little, with a complete valid padded body
                let n = max_frame + r.range(1, 9) as usize;
                if n <= 70_000 {
                    evs.push(Ev::Raw { d, hdr: Some(n as u64), body: Body::Json { v: small_msg(d, r), n } });
                } else {
                    evs.push(Ev::Raw { d, hdr: Some(n as u64), body: Body::Hex(vec![b'"']) });
                }
                if r.chance(50) {
                    evs.push(Ev::Msg { d, v: small_msg(d, r) });
                    evs.push(Ev::Fl { d });
                }
            }
            3 => {
                // garbage JSON body of legal length
                let n = r.range(1, (max_frame as u64).min(200)) as usize;
                let body = match r.below(4) {
                    0 => Body::Fill { b: b'x', n },
                    1 => Body::Json { v: json!({"Nope": [1, 2, 3]}), n },
                    2 => Body::Json { v: gen_msg(1 - d, r), n }, // other direction's message (possibly truncated)
                    _ => Body::Hex((0..n).map(|_| r.below(256) as u8).collect()),
                };
                evs.push(Ev::Raw { d, hdr: Some(n as u64), body });
                if r.chance(60) {
                    evs.push(Ev::Msg { d, v: small_msg(d, r) });
                    evs.push(Ev::Fl { d });
                }
            }
            4 => {
                // valid frame followed by garbage bytes
                evs.push(Ev::Msg { d, v: small_msg(d, r) });
                evs.push(Ev::Fl { d });
                let n = r.range(1, 24) as usize;
                evs.push(Ev::Raw { d, hdr: None, body: Body::Hex((0..n).map(|_| r.below(256) as u8).collect()) });
            }
            5 => {
                // header only / header + part of a body that never completes
                let n = r.range(2, (max_frame as u64).min(300)) as usize;
                evs.push(Ev::Raw { d, hdr: Some(n as u64), body: Body::Json { v: gen_msg(d, r), n: r.below(n as u64) as usize } });
            }
            _ => {
                // fewer than 8 bytes of anything
                let n = r.range(1, 7) as usize;
                evs.push(Ev::Raw { d, hdr: None, body: Body::Hex((0..n).map(|_| if r.chance(70) { 0 } else { r.below(256) as u8 }).collect()) });
            }
        }
        for (i, e) in evs.into_iter().enumerate() {
            l.insert(pos + i, e);
        }
    }

    // connection close
    for d in 0..2u8 {
        if r.chance(50) {
            let cut = match r.below(10) {
                0..=3 => 0,
                4..=5 => r.range(1, 8),
                6..=8 => r.range(1, 64),
                _ => r.range(1, 2000),
            } as u32;
            // mostly after the last write; sometimes earlier, so that later writes hit a closed connection
            let l = &mut wr[d as usize];
            let pos = if r.chance(85) { l.len() } else { r.below(l.len() as u64 + 1) as usize };
            l.insert(pos, Ev::Eof { d, cut });
        }
    }

    // explicit read schedule
    let mut rd: [Vec<Ev>; 2] = [Vec::new(), Vec::new()];
    for d in 0..2u8 {
        for _ in 0..r.below(40) {
            rd[d as usize].push(Ev::R { d, n: read_step(r, regime) });
        }
    }
    let [w0, w1] = wr;
    let [r0, r1] = rd;
    let events = if r.chance(30) {
        let mut a = interleave(r, vec![w0, w1]);
        a.extend(interleave(r, vec![r0, r1]));
        a
    } else {
        interleave(r, vec![w0, w1, r0, r1])
    };
    (Cfg { max_frame, drain, kind: "random".into() }, events)
}

// ---------------------------------------------------------------- systematic scenario family
// For every ordered pair of small messages of one direction: every split of the byte stream into at
// most three read chunks (all 0, 1 and 2 cut positions), then a clean close; and a close at every
// byte offset of the stream (read in one chunk and byte by byte).

pub struct SysPair {
    pub d: u8,
    pub a: Value,
    pub b: Value,
    pub total: usize, // bytes on the wire (computed from compact JSON length + 8 per frame)
    pub first: u64,   // first case index
}

pub fn sys_pairs() -> (Vec<SysPair>, u64) {
    let mut r = Rng::new(0xC14);
    let small0 = vec![json!("Ping"), json!("Refresh"), json!({"Incremental": {"V1": {"domain_uuid": uuid(&mut r), "ranges": {}}}})];
    let mut small1 = vec![json!("Pong")];
    for u in INCR_UNITS {
        small1.push(json!({"Incremental": u}));
    }
    let mut pairs = Vec::new();
    let mut next = 0u64;
    for (d, set) in [(0u8, &small0), (1u8, &small1)] {
        for a in set.iter() {
            for b in set.iter() {
                let total = serde_json::to_vec(a).unwrap().len() + serde_json::to_vec(b).unwrap().len() + 16;
                let t = total as u64;
                // 1 (no cut) + (t-1) one cut + C(t-1,2) two cuts + 2*(t+1) eof offsets
                let count = 1 + (t - 1) + (t - 1) * (t - 2) / 2 + 2 * (t + 1);
                pairs.push(SysPair { d, a: a.clone(), b: b.clone(), total, first: next });
                next += count;
            }
        }
    }
    (pairs, next)
}

pub fn gen_systematic(pairs: &[SysPair], idx: u64) -> (Cfg, Vec<Ev>) {
    let p = pairs.iter().rev().find(|p| p.first <= idx).expect("systematic index");
    let mut j = idx - p.first;
    let d = p.d;
    let t = p.total as u64;
    let mut ev = vec![Ev::Msg { d, v: p.a.clone() }, Ev::Msg { d, v: p.b.clone() }, Ev::Fl { d }];
    let mut cfg = Cfg { max_frame: 4096, drain: 1 << 20, kind: "systematic".into() };
    if j == 0 {
        ev.push(Ev::Eof { d, cut: 0 });
        return (cfg, ev);
    }
    j -= 1;
    if j < t - 1 {
        ev.push(Ev::R { d, n: (j + 1) as u32 });
        ev.push(Ev::Eof { d, cut: 0 });
        return (cfg, ev);
    }
    j -= t - 1;
    let two = (t - 1) * (t - 2) / 2;
    if j < two {
        // (c1, c2) with 1 <= c1 < c2 <= t-1, enumerated by c1 then c2
        let mut c1 = 1u64;
        loop {
            let n = t - 1 - c1;
            if j < n {
                break;
            }
            j -= n;
            c1 += 1;
        }
        let c2 = c1 + 1 + j;
        ev.push(Ev::R { d, n: c1 as u32 });
        ev.push(Ev::R { d, n: (c2 - c1) as u32 });
        ev.push(Ev::Eof { d, cut: 0 });
        return (cfg, ev);
    }
    j -= two;
    // close at offset o in 0..=t, read in one chunk (first t+1 cases) or byte by byte
    let o = j % (t + 1);
    if j / (t + 1) == 1 {
        cfg.drain = 1;
    }
    ev.push(Ev::Eof { d, cut: (t - o) as u32 });
    (cfg, ev)
}
