//! One run: the real codecs over the real tokio_util Framed / FramedRead / FramedWrite on the simulated
//! pipe, driven by an explicit event list with a hand-written poll loop; then the oracles.

use crate::codec::{ConsumerCodec, ConsumerRequest, SupplierCodec, SupplierResponse};
use crate::gen::{Cfg, Ev};
use crate::pipe::{Chan, ChanRef, Duplex, RdEnd, WrEnd};
use futures_util::{sink::Sink, stream::Stream};
use serde_json::Value;
use std::{
    cell::RefCell,
    collections::BTreeMap,
    pin::Pin,
    rc::Rc,
    sync::{
        atomic::{AtomicBool, Ordering},
        Arc,
    },
    task::{Context, Poll, Wake, Waker},
};
use tokio_util::codec::{Framed, FramedRead, FramedWrite};

pub const O_SEQ: &str = "sequence-equal";
pub const O_REJECT: &str = "bad-frame-rejected";
pub const O_EOF: &str = "eof-mid-frame";
pub const O_AFTER: &str = "after-reject";

struct Flag(AtomicBool);
impl Wake for Flag {
    fn wake(self: Arc<Self>) {
        self.0.store(true, Ordering::Relaxed)
    }
    fn wake_by_ref(self: &Arc<Self>) {
        self.0.store(true, Ordering::Relaxed)
    }
}

#[derive(Clone, Debug, PartialEq)]
pub enum OutK {
    Msg(Value),
    Err(String),
    End,
}
#[derive(Clone, Debug)]
pub struct Out {
    pub k: OutK,
    pub delivered_at: usize,
    pub reads_at: usize,
}

pub struct Sent {
    pub val: Value,
    pub start: usize,
    pub end: usize,
    pub on_wire: bool,
}

#[derive(Clone, Debug)]
pub struct Violation {
    pub oracle: &'static str,
    pub signature: String,
    pub dir: u8,
    pub step: usize,
    pub summary: String,
}

#[derive(Default, Clone)]
pub struct Stats {
    pub c: BTreeMap<&'static str, u64>,
    pub max_read_buf: u64,
    pub max_read_cap: u64,
}
impl Stats {
    pub fn add(&mut self, k: &'static str, n: u64) {
        if n > 0 {
            *self.c.entry(k).or_insert(0) += n;
        }
    }
    pub fn merge(&mut self, o: &Stats) {
        for (k, v) in &o.c {
            *self.c.entry(k).or_insert(0) += v;
        }
        self.max_read_buf = self.max_read_buf.max(o.max_read_buf);
        self.max_read_cap = self.max_read_cap.max(o.max_read_cap);
    }
}

pub struct RunResult {
    pub violation: Option<Violation>,
    pub harness_error: Option<String>,
    pub stats: Stats,
    pub digest: u64,
    pub shape: u64,
    pub nontrivial: bool,
    pub outs: [Vec<Out>; 2],
    pub expected: [String; 2],
}

pub struct Fnv(pub u64);
impl Fnv {
    pub fn new() -> Self {
        Fnv(0xcbf2_9ce4_8422_2325)
    }
    pub fn bytes(&mut self, b: &[u8]) {
        for x in b {
            self.0 ^= *x as u64;
            self.0 = self.0.wrapping_mul(0x100_0000_01b3);
        }
    }
    pub fn u(&mut self, x: u64) {
        self.bytes(&x.to_le_bytes());
    }
    pub fn s(&mut self, s: &str) {
        self.u(s.len() as u64);
        self.bytes(s.as_bytes());
    }
    pub fn value(&mut self, v: &Value) {
        match v {
            Value::Null => self.u(0),
            Value::Bool(b) => self.u(1 + *b as u64),
            Value::Number(n) => {
                self.u(3);
                if let Some(x) = n.as_u64() {
                    self.u(x)
                } else if let Some(x) = n.as_i64() {
                    self.u(x as u64)
                } else {
                    self.u(n.as_f64().unwrap_or(0.0).to_bits())
                }
            }
            Value::String(s) => {
                self.u(4);
                self.s(s)
            }
            Value::Array(a) => {
                self.u(5);
                self.u(a.len() as u64);
                for x in a {
                    self.value(x)
                }
            }
            Value::Object(m) => {
                self.u(6);
                self.u(m.len() as u64);
                for (k, x) in m {
                    self.s(k);
                    self.value(x)
                }
            }
        }
    }
}

pub fn scenario_digest(cfg: &Cfg, events: &[Ev]) -> u64 {
    let mut h = Fnv::new();
    h.u(cfg.max_frame as u64);
    h.u(cfg.drain as u64);
    for e in events {
        match e {
            Ev::Msg { d, v } => {
                h.u(10 + *d as u64);
                h.value(v)
            }
            Ev::Fl { d } => h.u(20 + *d as u64),
            Ev::Raw { d, hdr, body } => {
                h.u(30 + *d as u64);
                h.u(hdr.unwrap_or(0));
                h.u(hdr.is_some() as u64);
                let b = body.bytes();
                h.u(b.len() as u64);
                h.bytes(&b)
            }
            Ev::W { d, n } => {
                h.u(40 + *d as u64);
                h.u(*n as u64)
            }
            Ev::R { d, n } => {
                h.u(50 + *d as u64);
                h.u(*n as u64)
            }
            Ev::Eof { d, cut } => {
                h.u(60 + *d as u64);
                h.u(*cut as u64)
            }
        }
    }
    h.0
}

struct Sim {
    max_frame: usize,
    ch: [ChanRef; 2],
    consumer: Framed<Duplex, ConsumerCodec>,
    sup_r: FramedRead<RdEnd, SupplierCodec>,
    sup_w: FramedWrite<WrEnd, SupplierCodec>,
    flag: Arc<Flag>,
    waker: Waker,
    outs: [Vec<Out>; 2],
    done: [bool; 2],
    sent: [Vec<Sent>; 2],
    max_buf: [usize; 2],
    max_cap: [usize; 2],
    bound_excess: [Option<(usize, usize, usize)>; 2], // (len, bound, outputs so far)
    sink_error: Option<(u8, String)>,
    harness_error: Option<String>,
    stats: Stats,
}

const SPIN_CAP: usize = 5_000_000;

impl Sim {
    fn new(cfg: &Cfg) -> Sim {
        let c0: ChanRef = Rc::new(RefCell::new(Chan::default()));
        let c1: ChanRef = Rc::new(RefCell::new(Chan::default()));
        // Consumer side as in server/core/src/repl/mod.rs: one Framed over the whole connection.
        let consumer = Framed::new(Duplex { r: RdEnd(c1.clone()), w: WrEnd(c0.clone()) }, ConsumerCodec::new(cfg.max_frame));
        // Supplier side as in handle_repl_conn: split halves, FramedRead + FramedWrite.
        let sup_r = FramedRead::new(RdEnd(c0.clone()), SupplierCodec::new(cfg.max_frame));
        let sup_w = FramedWrite::new(WrEnd(c1.clone()), SupplierCodec::new(cfg.max_frame));
        let flag = Arc::new(Flag(AtomicBool::new(false)));
        let waker = Waker::from(flag.clone());
        Sim {
            max_frame: cfg.max_frame,
            ch: [c0, c1],
            consumer,
            sup_r,
            sup_w,
            flag,
            waker,
            outs: [Vec::new(), Vec::new()],
            done: [false, false],
            sent: [Vec::new(), Vec::new()],
            max_buf: [0, 0],
            max_cap: [0, 0],
            bound_excess: [None, None],
            sink_error: None,
            harness_error: None,
            stats: Stats::default(),
        }
    }

    fn wbuf_len(&self, d: u8) -> usize {
        if d == 0 {
            self.consumer.write_buffer().len()
        } else {
            self.sup_w.write_buffer().len()
        }
    }

    /// Drive a sink operation (poll_ready / poll_flush) to completion.
    fn drive_sink(&mut self, d: u8, flush: bool) -> bool {
        for _ in 0..SPIN_CAP {
            self.flag.0.store(false, Ordering::Relaxed);
            let mut cx = Context::from_waker(&self.waker);
            let p = match (d, flush) {
                (0, false) => Sink::<ConsumerRequest>::poll_ready(Pin::new(&mut self.consumer), &mut cx),
                (0, true) => Sink::<ConsumerRequest>::poll_flush(Pin::new(&mut self.consumer), &mut cx),
                (_, false) => Sink::<SupplierResponse>::poll_ready(Pin::new(&mut self.sup_w), &mut cx),
                (_, true) => Sink::<SupplierResponse>::poll_flush(Pin::new(&mut self.sup_w), &mut cx),
            };
            match p {
                Poll::Ready(Ok(())) => return true,
                Poll::Ready(Err(e)) => {
                    self.sink_error.get_or_insert((d, format!("sink error: {}", e)));
                    return false;
                }
                Poll::Pending => {
                    if !self.flag.0.load(Ordering::Relaxed) {
                        self.harness_error = Some("writer Pending without a wake".into());
                        return false;
                    }
                }
            }
        }
        self.harness_error = Some("writer spin cap".into());
        false
    }

    fn feed(&mut self, d: u8, v: &Value) {
        if !self.drive_sink(d, false) {
            return;
        }
        let before = self.wbuf_len(d);
        if before > 0 {
            self.stats.add("encode appended to a non-empty write buffer", 1);
        }
        let (closed, base) = {
            let c = self.ch[d as usize].borrow();
            (c.closed, c.log.len())
        };
        let res = if d == 0 {
            match serde_json::from_value::<ConsumerRequest>(v.clone()) {
                Ok(m) => {
                    let val = serde_json::to_value(&m).unwrap_or(Value::Null);
                    Some((val, Pin::new(&mut self.consumer).start_send(m).map_err(|e| e.to_string())))
                }
                Err(e) => {
                    self.harness_error = Some(format!("generated request does not deserialise: {} : {}", e, v));
                    None
                }
            }
        } else {
            match serde_json::from_value::<SupplierResponse>(v.clone()) {
                Ok(m) => {
                    let val = serde_json::to_value(&m).unwrap_or(Value::Null);
                    Some((val, Pin::new(&mut self.sup_w).start_send(m).map_err(|e| e.to_string())))
                }
                Err(e) => {
                    self.harness_error = Some(format!("generated response does not deserialise: {} : {}", e, v));
                    None
                }
            }
        };
        if let Some((val, r)) = res {
            match r {
                Ok(()) => {
                    let after = self.wbuf_len(d);
                    self.sent[d as usize].push(Sent { val, start: base + before, end: base + after, on_wire: !closed });
                    self.stats.add("messages encoded", 1);
                }
                Err(e) => {
                    self.sink_error.get_or_insert((d, format!("encode error: {}", e)));
                }
            }
        }
    }

    fn pump(&mut self, d: u8) {
        let di = d as usize;
        let mut spins = 0usize;
        while !self.done[di] {
            spins += 1;
            if spins > SPIN_CAP {
                self.harness_error = Some("reader spin cap".into());
                return;
            }
            self.flag.0.store(false, Ordering::Relaxed);
            let mut cx = Context::from_waker(&self.waker);
            let p: Poll<Option<Result<Value, String>>> = if d == 0 {
                Pin::new(&mut self.sup_r)
                    .poll_next(&mut cx)
                    .map(|o| o.map(|r| r.map(|m| serde_json::to_value(&m).unwrap_or(Value::Null)).map_err(|e| format!("{:?}: {}", e.kind(), e))))
            } else {
                Pin::new(&mut self.consumer)
                    .poll_next(&mut cx)
                    .map(|o| o.map(|r| r.map(|m| serde_json::to_value(&m).unwrap_or(Value::Null)).map_err(|e| format!("{:?}: {}", e.kind(), e))))
            };
            // probe the real read buffer
            let (len, cap) = if d == 0 {
                (self.sup_r.read_buffer().len(), self.sup_r.read_buffer().capacity())
            } else {
                (self.consumer.read_buffer().len(), self.consumer.read_buffer().capacity())
            };
            let (delivered, reads, max_chunk) = {
                let c = self.ch[di].borrow();
                (c.delivered, c.reads_done, c.max_chunk)
            };
            self.max_buf[di] = self.max_buf[di].max(len);
            self.max_cap[di] = self.max_cap[di].max(cap);
            let bound = 8 + self.max_frame + max_chunk;
            if len > bound && self.bound_excess[di].is_none() {
                self.bound_excess[di] = Some((len, bound, self.outs[di].len()));
            }
            match p {
                Poll::Ready(Some(Ok(v))) => self.outs[di].push(Out { k: OutK::Msg(v), delivered_at: delivered, reads_at: reads }),
                Poll::Ready(Some(Err(e))) => self.outs[di].push(Out { k: OutK::Err(e), delivered_at: delivered, reads_at: reads }),
                Poll::Ready(None) => {
                    self.outs[di].push(Out { k: OutK::End, delivered_at: delivered, reads_at: reads });
                    self.done[di] = true;
                }
                Poll::Pending => {
                    if !self.flag.0.load(Ordering::Relaxed) {
                        return;
                    }
                }
            }
        }
    }

    fn apply(&mut self, e: &Ev) {
        match e {
            Ev::Msg { d, v } => self.feed(*d, v),
            Ev::Fl { d } => {
                self.drive_sink(*d, true);
            }
            Ev::Raw { d, hdr, body } => {
                self.drive_sink(*d, true);
                let mut c = self.ch[*d as usize].borrow_mut();
                if !c.closed {
                    if let Some(h) = hdr {
                        c.log.extend_from_slice(&h.to_be_bytes());
                    }
                    c.log.extend_from_slice(&body.bytes());
                }
            }
            Ev::W { d, n } => self.ch[*d as usize].borrow_mut().wsteps.push_back(*n),
            Ev::R { d, n } => {
                self.ch[*d as usize].borrow_mut().rsteps.push_back(*n);
                self.pump(*d);
            }
            Ev::Eof { d, cut } => {
                self.drive_sink(*d, true);
                let mut c = self.ch[*d as usize].borrow_mut();
                if !c.closed {
                    let undelivered = c.log.len() - c.delivered;
                    let k = (*cut as usize).min(undelivered);
                    let nl = c.log.len() - k;
                    c.log.truncate(nl);
                    c.closed = true;
                }
            }
        }
    }

    fn drain(&mut self, chunk: u32) {
        for d in 0..2u8 {
            self.ch[d as usize].borrow_mut().wsteps.clear();
            self.drive_sink(d, true);
        }
        if chunk == 0 {
            return;
        }
        for d in 0..2u8 {
            let di = d as usize;
            loop {
                if self.done[di] || self.harness_error.is_some() {
                    break;
                }
                let before = (self.ch[di].borrow().delivered, self.outs[di].len(), self.ch[di].borrow().eof_seen);
                self.ch[di].borrow_mut().rsteps.push_back(chunk);
                self.pump(d);
                let after = (self.ch[di].borrow().delivered, self.outs[di].len(), self.ch[di].borrow().eof_seen);
                if before == after {
                    break;
                }
            }
        }
    }
}

// ---------------------------------------------------------------- reference framing model
enum Term {
    Clean,
    Incomplete { start: usize, have: usize },
    Zero { start: usize },
    Over { start: usize, len: u64 },
    BadJson { start: usize, len: u64 },
}
struct RFrame {
    start: usize,
    len: u64,
    val: Value,
}

fn parse_typed(d: u8, body: &[u8]) -> Option<Value> {
    if d == 0 {
        serde_json::from_slice::<ConsumerRequest>(body).ok().and_then(|m| serde_json::to_value(&m).ok())
    } else {
        serde_json::from_slice::<SupplierResponse>(body).ok().and_then(|m| serde_json::to_value(&m).ok())
    }
}

fn reference(d: u8, max_frame: usize, p: &[u8]) -> (Vec<RFrame>, Term) {
    let mut frames = Vec::new();
    let mut pos = 0usize;
    loop {
        let rest = &p[pos..];
        if rest.is_empty() {
            return (frames, Term::Clean);
        }
        if rest.len() < 8 {
            return (frames, Term::Incomplete { start: pos, have: rest.len() });
        }
        let mut h = [0u8; 8];
        h.copy_from_slice(&rest[..8]);
        let len = u64::from_be_bytes(h);
        if len == 0 {
            return (frames, Term::Zero { start: pos });
        }
        if len > max_frame as u64 {
            return (frames, Term::Over { start: pos, len });
        }
        if ((rest.len() - 8) as u64) < len {
            return (frames, Term::Incomplete { start: pos, have: rest.len() });
        }
        let body = &rest[8..8 + len as usize];
        match parse_typed(d, body) {
            Some(val) => frames.push(RFrame { start: pos, len, val }),
            None => return (frames, Term::BadJson { start: pos, len }),
        }
        pos += 8 + len as usize;
    }
}

fn len_class(len: Option<u64>, max: usize) -> &'static str {
    let m = max as u64;
    match len {
        None => "len unknown",
        Some(0) => "len==0",
        Some(l) if l < m.saturating_sub(1) => "len<limit-1",
        Some(l) if l == m.saturating_sub(1) => "len==limit-1",
        Some(l) if l == m => "len==limit",
        Some(l) if l == m.saturating_add(1) => "len==limit+1",
        Some(_) => "len>limit+1",
    }
}

/// How the bytes [s, e) of a frame were fragmented by the read chunks.
fn frag_class(chunk_ends: &[usize], s: usize, e: usize) -> &'static str {
    let mut in_header = false;
    let mut at_boundary = false;
    let mut in_body = false;
    for &b in chunk_ends {
        if b > s && b < e {
            if b < s + 8 {
                in_header = true;
            } else if b == s + 8 {
                at_boundary = true;
            } else {
                in_body = true;
            }
        }
    }
    if in_header {
        return "split inside header";
    }
    if at_boundary {
        return "split between header and body";
    }
    if in_body {
        return "split inside body";
    }
    // one chunk holds the whole frame: does it hold more than this frame?
    let mut cs = 0usize;
    for &b in chunk_ends {
        if b >= e {
            if cs < s || b > e {
                return "coalesced frames";
            }
            return "unsplit, alone in its read";
        }
        cs = b;
    }
    "not fully delivered"
}

fn short(v: &Value) -> String {
    let s = v.to_string();
    if s.len() > 160 {
        let mut e = 160;
        while !s.is_char_boundary(e) {
            e -= 1;
        }
        format!("{}…({} bytes)", &s[..e], s.len())
    } else {
        s
    }
}
fn outk_short(k: &OutK) -> String {
    match k {
        OutK::Msg(v) => format!("Msg {}", short(v)),
        OutK::Err(e) => format!("Err({})", e),
        OutK::End => "End".into(),
    }
}

struct Eval {
    violation: Option<Violation>,
    expected: String,
    shape: u64,
    nontrivial: bool,
}

fn evaluate(sim: &Sim, d: u8, stats: &mut Stats) -> Eval {
    let di = d as usize;
    let c = sim.ch[di].borrow();
    let max = sim.max_frame;
    let prefix = &c.log[..c.delivered];
    let at_eof = c.eof_seen;
    let (frames, term) = reference(d, max, prefix);
    let outs = &sim.outs[di];
    let k = frames.len();
    let ce = &c.chunk_ends;
    let mut nontrivial = false;
    let mut shape = Fnv::new();
    shape.u(d as u64);

    // coverage probes from the reference view of what was delivered
    for f in &frames {
        let e = f.start + 8 + f.len as usize;
        let fc = frag_class(ce, f.start, e);
        stats.add(
            match fc {
                "split inside header" => "frame split inside header",
                "split between header and body" => "frame split between header and body",
                "split inside body" => "frame split inside body",
                "coalesced frames" => "frame coalesced with neighbour in one read",
                _ => "frame delivered alone in one read",
            },
            1,
        );
        if fc != "unsplit, alone in its read" {
            nontrivial = true;
        }
        let lc = len_class(Some(f.len), max);
        match lc {
            "len==limit-1" => stats.add("valid frame with len==limit-1 decoded", 1),
            "len==limit" => stats.add("valid frame with len==limit decoded", 1),
            _ => {}
        }
        let nonempty = |ptr: &str| f.val.pointer(ptr).map(|x| x.as_array().map(|a| !a.is_empty()).or(x.as_object().map(|o| !o.is_empty())).unwrap_or(false)).unwrap_or(false);
        if nonempty("/Incremental/v1/entries") || nonempty("/Incremental/v1/meta_entries") || nonempty("/Incremental/v1/schema_entries") {
            stats.add("decoded incremental V1 context carrying entries", 1);
        }
        if nonempty("/Refresh/v1/entries") || nonempty("/Refresh/v1/meta_entries") || nonempty("/Refresh/v1/schema_entries") {
            stats.add("decoded refresh V1 context carrying entries", 1);
        }
        if nonempty("/Incremental/V1/ranges") {
            stats.add("decoded incremental request with ruv ranges", 1);
        }
        if f.len > 8192 {
            stats.add("decoded frame larger than the initial 8 KiB read buffer", 1);
        }
        shape.s(fc);
        shape.s(lc);
        shape.u(match &f.val {
            Value::String(s) => s.len() as u64,
            Value::Object(m) => 100 + m.keys().next().map(|k| k.len()).unwrap_or(0) as u64 + if f.len > 64 { 1000 } else { 0 },
            _ => 7,
        });
    }
    stats.add("messages expected (reference)", k as u64);
    let (tname, tstart, tlen): (&'static str, usize, Option<u64>) = match &term {
        Term::Clean => ("clean", c.delivered, None),
        Term::Incomplete { start, have } => {
            let l = if *have >= 8 {
                let mut h = [0u8; 8];
                h.copy_from_slice(&prefix[*start..*start + 8]);
                Some(u64::from_be_bytes(h))
            } else {
                None
            };
            (if *have < 8 { "incomplete header" } else { "incomplete body" }, *start, l)
        }
        Term::Zero { start } => ("len==0", *start, Some(0)),
        Term::Over { start, len } => ("over limit", *start, Some(*len)),
        Term::BadJson { start, len } => ("garbage json", *start, Some(*len)),
    };
    shape.s(tname);
    shape.u(at_eof as u64);
    if let Some(l) = tlen {
        shape.s(len_class(Some(l), max));
    }
    let tfrag = if matches!(term, Term::Clean) { "n/a" } else { frag_class(ce, tstart, c.delivered.max(tstart + 1)) };
    shape.s(tfrag);
    match (&term, at_eof) {
        (Term::Clean, true) => stats.add("eof between frames (clean close)", 1),
        (Term::Incomplete { have, .. }, true) => {
            nontrivial = true;
            stats.add(if *have < 8 { "eof inside header" } else { "eof inside body" }, 1)
        }
        (Term::Incomplete { .. }, false) => stats.add("stream left open mid-frame", 1),
        (Term::Zero { .. }, _) => {
            nontrivial = true;
            stats.add("zero-length frame reached the decoder", 1)
        }
        (Term::Over { len, .. }, _) => {
            nontrivial = true;
            stats.add(
                if *len == max as u64 + 1 {
                    "frame with len==limit+1 reached the decoder"
                } else if *len >= 1 << 31 {
                    "frame claiming a huge length reached the decoder"
                } else {
                    "frame with len>limit+1 reached the decoder"
                },
                1,
            )
        }
        (Term::BadJson { .. }, _) => {
            nontrivial = true;
            stats.add("garbage json body of legal length reached the decoder", 1)
        }
        _ => {}
    }

    let expected = format!(
        "{} message(s) then {}{}",
        k,
        tname,
        if at_eof { " at eof" } else { " (no eof observed)" }
    );

    let viol = |oracle: &'static str, dev: &str, lenc: Option<&str>, frag: &str, step: usize, detail: String| -> Option<Violation> {
        // categorical signature: the deviation, the length class only when it sits at the limit, and the
        // fragmentation class only for the sequence oracle (where fragmentation is the variable)
        let mut signature = dev.to_string();
        if let Some(l) = lenc {
            if oracle == O_SEQ && l != "len<limit-1" && l != "len unknown" {
                signature.push_str("; ");
                signature.push_str(l);
            }
        }
        if oracle == O_SEQ && frag != "n/a" {
            signature.push_str("; ");
            signature.push_str(frag);
        }
        Some(Violation { oracle, signature, dir: d, step, summary: format!("dir {} ({}): expected {}; {}", d, if d == 0 { "consumer->supplier" } else { "supplier->consumer" }, expected, detail) })
    };

    let mut v: Option<Violation> = None;

    // (enc) what the real encoder put on the wire for each sent message
    for (j, s) in sim.sent[di].iter().enumerate() {
        if !s.on_wire || s.end > c.log.len() {
            continue;
        }
        let b = &c.log[s.start..s.end];
        let ok = b.len() >= 8 && {
            let mut h = [0u8; 8];
            h.copy_from_slice(&b[..8]);
            u64::from_be_bytes(h) == (b.len() - 8) as u64 && serde_json::from_slice::<Value>(&b[8..]).ok().as_ref() == Some(&s.val)
        };
        if !ok && v.is_none() {
            v = viol(O_SEQ, "encoder wrote a wrong frame", None, "n/a", j, format!("sent message #{} {} is not header+json on the wire at [{}..{})", j, short(&s.val), s.start, s.end));
        }
    }
    if let (Some((sd, e)), true) = (&sim.sink_error, v.is_none()) {
        if *sd == d {
            v = viol(O_SEQ, "encoder error", None, "n/a", 0, e.clone());
        }
    }

    // (1) the messages, in order
    if v.is_none() {
        for (i, f) in frames.iter().enumerate() {
            let e = f.start + 8 + f.len as usize;
            let frag = frag_class(ce, f.start, e);
            let lenc = len_class(Some(f.len), max);
            let dev = match outs.get(i).map(|o| &o.k) {
                Some(OutK::Msg(m)) if *m == f.val => continue,
                Some(OutK::Msg(_)) => "wrong message",
                Some(OutK::Err(_)) => "spurious error",
                Some(OutK::End) => "early end of stream",
                None => "missing message",
            };
            v = viol(
                O_SEQ,
                dev,
                Some(lenc),
                frag,
                i,
                format!("frame #{} at [{}..{}) should decode to {} but the decoder gave {}", i, f.start, e, short(&f.val), outs.get(i).map(|o| outk_short(&o.k)).unwrap_or("nothing".into())),
            );
            break;
        }
    }

    // terminal
    if v.is_none() {
        let rest = &outs[k.min(outs.len())..];
        let first = rest.first().map(|o| &o.k);
        let got = || rest.iter().map(|o| outk_short(&o.k)).collect::<Vec<_>>().join(", ");
        let lenc = len_class(tlen, max);
        match &term {
            Term::Clean => match first {
                Some(OutK::Msg(_)) => v = viol(O_SEQ, "extra message", None, "n/a", k, format!("after the last frame the decoder gave [{}]", got())),
                Some(OutK::Err(_)) => v = viol(O_SEQ, "spurious error", Some("after last frame"), if at_eof { "clean eof" } else { "stream open" }, k, format!("after the last frame the decoder gave [{}]", got())),
                Some(OutK::End) if !at_eof => v = viol(O_SEQ, "early end of stream", None, "stream open", k, "End although the stream is open".into()),
                _ => {}
            },
            Term::Incomplete { start, have } => {
                let part = if *have < 8 { "header" } else { "body" };
                if at_eof {
                    if let Some(p) = rest.iter().position(|o| matches!(o.k, OutK::Msg(_))) {
                        v = viol(O_EOF, &format!("eof mid-{} produced message", part), None, tfrag, k + p, format!("stream closed {} bytes into the frame at {}; decoder gave [{}]", have, start, got()));
                    }
                } else {
                    match first {
                        Some(OutK::Msg(_)) => v = viol(O_SEQ, &format!("partial {} produced message", part), Some(lenc), tfrag, k, format!("only {} bytes of the frame at {} delivered; decoder gave [{}]", have, start, got())),
                        Some(OutK::Err(_)) => v = viol(O_SEQ, &format!("spurious error on partial {}", part), Some(lenc), tfrag, k, format!("only {} bytes of the frame at {} delivered; decoder gave [{}]", have, start, got())),
                        Some(OutK::End) => v = viol(O_SEQ, "early end of stream", Some(lenc), tfrag, k, "End although the stream is open".into()),
                        None => {}
                    }
                }
            }
            Term::Zero { start } | Term::Over { start, .. } => {
                // read that completed the 8-byte header
                let h = ce.iter().position(|&b| b >= start + 8).unwrap_or(0);
                match first {
                    Some(OutK::Msg(_)) => v = viol(O_REJECT, &format!("{} accepted", lenc), None, tfrag, k, format!("frame at {} with header length {:?} (limit {}) produced [{}]", start, tlen, max, got())),
                    None | Some(OutK::End) => v = viol(O_REJECT, &format!("{} not rejected", lenc), None, tfrag, k, format!("header at {} (length {:?}, limit {}) fully delivered, decoder quiescent, gave [{}]", start, tlen, max, got())),
                    Some(OutK::Err(_)) => {
                        if rest[0].reads_at != h + 1 {
                            v = viol(O_REJECT, &format!("{} buffered before rejection", lenc), None, tfrag, k, format!("header at {} (length {:?}, limit {}) was complete after read #{} but the error came after read #{}", start, tlen, max, h + 1, rest[0].reads_at));
                        } else if let Some(p) = rest[1..].iter().position(|o| matches!(o.k, OutK::Msg(_))) {
                            v = viol(O_AFTER, "message after rejected frame", Some(lenc), tfrag, k + 1 + p, format!("after rejecting the frame at {} the decoder gave [{}]", start, got()));
                        } else {
                            stats.add("bad frame rejected with Err then end of stream", 1);
                        }
                    }
                }
            }
            Term::BadJson { start, .. } => {
                if let Some(OutK::Msg(_)) = first {
                    v = viol(O_SEQ, "garbage body produced message", Some(lenc), tfrag, k, format!("frame at {}; decoder gave [{}]", start, got()));
                } else if let Some(p) = rest.iter().skip(1).position(|o| matches!(o.k, OutK::Msg(_))) {
                    v = viol(O_AFTER, "message after rejected frame", Some("garbage json"), tfrag, k + 1 + p, format!("after the garbage frame at {} the decoder gave [{}]", start, got()));
                } else if matches!(first, Some(OutK::Err(_))) {
                    stats.add("garbage json rejected with Err", 1);
                }
            }
        }
    }

    // (2) buffering bound on the real read buffer
    if v.is_none() {
        if let Some((len, bound, at)) = sim.bound_excess[di] {
            v = viol(O_REJECT, "read buffer exceeded limit+header+chunk", None, tfrag, at, format!("read buffer held {} bytes > {} (= 8 + max_frame_bytes {} + largest chunk {})", len, bound, max, c.max_chunk));
        }
    }

    if c.n_rpend + c.n_wpend + c.n_partial_w > 0 {
        nontrivial = true;
    }
    Eval { violation: v, expected, shape: shape.0, nontrivial }
}

pub fn run(cfg: &Cfg, events: &[Ev]) -> RunResult {
    let mut sim = Sim::new(cfg);
    for e in events {
        sim.apply(e);
        if sim.harness_error.is_some() {
            break;
        }
    }
    if sim.harness_error.is_none() {
        sim.drain(cfg.drain);
    }
    let mut stats = std::mem::take(&mut sim.stats);
    let e0 = evaluate(&sim, 0, &mut stats);
    let e1 = evaluate(&sim, 1, &mut stats);

    // fault / probe counters measured on the pipes and buffers
    let mut digest = Fnv::new();
    for d in 0..2 {
        let c = sim.ch[d].borrow();
        stats.add("read returned Pending (self-wake)", c.n_rpend);
        stats.add("write returned Pending (self-wake)", c.n_wpend);
        stats.add("partial write accepted", c.n_partial_w);
        stats.add("read attempted on empty open pipe", c.n_read_empty);
        stats.add("write after close discarded", c.n_write_after_close);
        stats.add("connection closed (eof event)", c.closed as u64);
        stats.add("bytes delivered", c.delivered as u64);
        stats.add("read chunks delivered", c.chunk_ends.len() as u64);
        stats.max_read_buf = stats.max_read_buf.max(sim.max_buf[d] as u64);
        stats.max_read_cap = stats.max_read_cap.max(sim.max_cap[d] as u64);
        for o in &sim.outs[d] {
            match &o.k {
                OutK::Msg(_) => stats.add("messages decoded", 1),
                OutK::Err(_) => stats.add("decoder returned Err", 1),
                OutK::End => stats.add("stream ended (None)", 1),
            }
        }
        digest.u(c.log.len() as u64);
        digest.bytes(&c.log);
        digest.u(c.delivered as u64);
        for b in &c.chunk_ends {
            digest.u(*b as u64);
        }
        for o in &sim.outs[d] {
            match &o.k {
                OutK::Msg(v) => {
                    digest.u(1);
                    digest.value(v)
                }
                OutK::Err(e) => {
                    digest.u(2);
                    digest.s(e)
                }
                OutK::End => digest.u(3),
            }
            digest.u(o.delivered_at as u64);
            digest.u(o.reads_at as u64);
        }
        digest.u(sim.max_buf[d] as u64);
    }
    let violation = e0.violation.or(e1.violation);
    if let Some(v) = &violation {
        digest.s(v.oracle);
        digest.s(&v.signature);
    }
    let mut shape = Fnv::new();
    shape.u(e0.shape);
    shape.u(e1.shape);
    RunResult {
        violation,
        harness_error: sim.harness_error.clone(),
        stats,
        digest: digest.0,
        shape: shape.0,
        nontrivial: e0.nontrivial || e1.nontrivial,
        outs: sim.outs.clone(),
        expected: [e0.expected, e1.expected],
    }
}
