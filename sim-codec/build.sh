#!/bin/bash
# Build the C14 codec simulation (real codec.rs from /repo's working tree, or from $KANIDM_SRC for
# sensitivity runs). Quiet on success; prints HARNESS-ERROR and exits 2 on failure.
set -u
export CARGO_NET_OFFLINE=true RUSTUP_TOOLCHAIN=1.96.0 CARGO_TERM_COLOR=never
T=/verif/target-codec
mkdir -p "$T"
cd /verif/sim-codec || { echo "HARNESS-ERROR /verif/sim-codec missing"; exit 2; }
[ -f Cargo.lock ] || cp /repo/Cargo.lock Cargo.lock
if ! cargo build --offline 2> "$T/build.log"; then
  # the lock file may be stale against /repo: refresh it once and retry
  cp /repo/Cargo.lock Cargo.lock
  if ! cargo build --offline 2> "$T/build.log"; then
    echo "HARNESS-ERROR build of /verif/sim-codec failed (see $T/build.log)"
    tail -30 "$T/build.log"
    exit 2
  fi
fi
exit 0
