#!/bin/bash
# Builds the C44 simulation executable (kanidm's resolver modules compiled from the kanidm
# working tree by path, linked against a stub of kanidm_client) and prints the path of the
# executable on the last line of stdout.
#
#   KANIDM_SRC      kanidm source tree to compile against (default /repo). With the default the
#                   workspace is /verif/sim-resolver itself. With any other value (sensitivity
#                   runs on a scratch copy) a scratch workspace is generated in $C44_WS
#                   (required, under /dev/shm) so that nothing under /verif changes.
#   C44_TARGET_DIR  cargo target dir (default /verif/target-resolver)
set -euo pipefail
export CARGO_NET_OFFLINE=true RUSTUP_TOOLCHAIN=1.96.0 CARGO_TERM_COLOR=never
SIM_DIR="$(cd "$(dirname "${BASH_SOURCE[0]}")" && pwd)"
KANIDM_SRC="${KANIDM_SRC:-/repo}"
KANIDM_SRC="${KANIDM_SRC%/}"
TARGET_DIR="${C44_TARGET_DIR:-/verif/target-resolver}"

[ -f "$KANIDM_SRC/unix_integration/resolver_common/src/idprovider/kanidm.rs" ] || { echo "build.sh: no kanidm tree at $KANIDM_SRC" >&2; exit 2; }

render() { # template -> file, only rewritten when the content changes (keeps cargo's mtimes quiet)
  local tmp; tmp="$(mktemp -p /dev/shm c44-render-XXXXXX)"
  sed -e "s|@KANIDM_SRC@|$KANIDM_SRC|g" -e "s|@SIM_DIR@|$SIM_DIR|g" "$1" > "$tmp"
  if ! cmp -s "$tmp" "$2"; then mkdir -p "$(dirname "$2")"; cp "$tmp" "$2"; chmod 644 "$2"; fi
  rm -f "$tmp"
}

if [ "$KANIDM_SRC" = "/repo" ]; then
  WS="$SIM_DIR"
else
  WS="${C44_WS:?KANIDM_SRC is not /repo: set C44_WS to a scratch workspace dir under /dev/shm}"
  mkdir -p "$WS/.cargo"
  cp "$SIM_DIR/rust-toolchain.toml" "$WS/rust-toolchain.toml"
fi
render "$SIM_DIR/templates/Cargo.toml.in" "$WS/Cargo.toml"
render "$SIM_DIR/templates/stub.Cargo.toml.in" "$WS/client-stub/Cargo.toml"
render "$SIM_DIR/templates/main.rs.in" "$WS/src/main.rs"
[ -f "$WS/Cargo.lock" ] || cp "$KANIDM_SRC/Cargo.lock" "$WS/Cargo.lock"
# --export-dynamic: getrandom 0.3/0.4 and std look `getrandom` up with dlsym; the executable's own
# definition (entropy seam) is only found that way if its symbols are exported.
CFG='[build]
target-dir = "'"$TARGET_DIR"'"
rustflags = ["-C", "link-arg=-Wl,--export-dynamic"]

[net]
offline = true
'
if [ "$WS" != "$SIM_DIR" ] || [ ! -f "$WS/.cargo/config.toml" ]; then
  printf '%s' "$CFG" > "$WS/.cargo/config.toml"
fi

mkdir -p "$TARGET_DIR"
[ -f "$TARGET_DIR/.gitignore" ] || echo '*' > "$TARGET_DIR/.gitignore"   # build output is never committed
LOG="$TARGET_DIR/build-c44.$$.log"
JSON="$TARGET_DIR/build-c44.$$.json"
trap 'rm -f "$LOG" "$JSON"' EXIT
export CARGO_TARGET_DIR="$TARGET_DIR"
if ! ( cd "$WS" && cargo build --offline --bin c44sim --message-format=json > "$JSON" 2> "$LOG" ); then
  echo "build.sh: cargo failed" >&2
  grep -o '"rendered":"[^"]*' "$JSON" | sed 's/"rendered":"//; s/\\n/\n/g' | head -120 >&2 || true
  tail -40 "$LOG" >&2
  exit 2
fi
BIN="$(python3 - "$JSON" <<'PY'
import json, sys
exe = None
for line in open(sys.argv[1]):
    line = line.strip()
    if not line.startswith('{'):
        continue
    m = json.loads(line)
    if m.get('reason') == 'compiler-artifact' and m.get('executable') and m.get('target', {}).get('name') == 'c44sim':
        exe = m['executable']
print(exe or '')
PY
)"
[ -n "$BIN" ] && [ -x "$BIN" ] || { echo "build.sh: executable not found" >&2; exit 2; }
echo "$BIN"
