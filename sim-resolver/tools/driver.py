#!/usr/bin/env python3
"""Driver of the C44 check (called by /verif/sim-ext/C44.sh).

  driver.py quick | thorough | replay <file> | selfcheck [n]

Exit codes: 0 property held on everything explored, 1 violation (after exactly one
`VIOLATION property=C44 replay=<path>` line), 2 harness error (`HARNESS-ERROR ...`).
"""
import json
import os
import shutil
import subprocess
import sys
import time

PROP = "C44"
V = "/verif"
SIM = os.path.join(V, "sim-resolver")
SEED = int(os.environ.get("VERIF_SEED", "1"))
WORKERS = int(os.environ.get("C44_WORKERS", str(os.cpu_count() or 4)))
SCRATCH = os.environ["C44_SCRATCH"]  # created and removed by C44.sh
# Overridden only by tools/sensitivity.sh, so that runs against a mutated scratch copy of kanidm
# never touch the real evidence / replay files.
EVIDENCE_DIR = os.environ.get("C44_EVIDENCE_DIR", os.path.join(V, "evidence"))
REPLAY_DIR = os.environ.get("C44_REPLAY_DIR", os.path.join(V, "replays", PROP))

QUICK_N = int(os.environ.get("C44_N", "1200"))
QUICK_WALL_CAP_S = float(os.environ.get("C44_WALL_CAP_S", "40"))
THOROUGH_N = int(os.environ.get("C44_N", "200000"))
THOROUGH_WALL_CAP_S = float(os.environ.get("C44_WALL_CAP_S", "900"))

ASSUMPTIONS = [
    "The identity server is a model inside the simulator: an account's unix password check answers 'verified' exactly when the presented password equals the password the model currently holds for the account (never for an empty password). 'Verified online for user u on machine m' means: that model answered a credential check for u positively at the request of machine m's resolver. Accounts are never deleted, renamed, expired or re-created under the same name.",
    "HTTP client stubbed at the crate boundary: kanidm's resolver modules are linked against a stand-in for the kanidm_client crate (same item names and signatures, pinned by a source-text check) whose six methods answer at once from the server model, or with a transport error / 500 / 401 according to the scripted network mode. No socket exists in the executable's decision path; reqwest/TLS/timeouts are not run.",
    "'This machine's hardware-bound key' is modelled with kanidm's soft TPM: a machine = its own 32-byte auth value (standing for the hardware binding; it is never copied between machines) + its own DB file (token cache and key store) + its own resolver. The auth value is used directly (AuthValue::from([u8;32])); the daemon's derivation of it from the hsm pin file (argon2id) is not run. No hardware TPM (tss-esapi) is exercised.",
    "The daemon's start-up sequence (cli/resolver.rs: migrate; one transaction that fetches-or-creates and loads the machine key, builds KanidmProvider, commits; Resolver::new) is mirrored in the harness, pinned by an ordered source-text check; the rest of kanidm_unixd (sockets, tasks daemon, config parsing) is not run.",
    "Time seam: the executable defines clock_gettime. SystemTime is the run's simulated wall clock (moves one second per event plus explicit jumps); Instant advances one second per observation, so CryptoPolicy::time_target(250 ms) deterministically keeps the smallest argon2id parameters its search loop can produce (m=8 MiB, t=2, p=1; measured and reported in coverage.kdf_parameters_seen). Production hosts would settle on larger parameters; the cost does not change which password a hash verifies.",
    "Entropy seam: the executable defines getrandom (found by std, by getrandom 0.3/0.4 via dlsym, and by a patched vendored getrandom 0.2.17 for crypto-glue's rand 0.8); every run executes on a fresh thread whose generators are seeded from the run seed, so salts, keys, nonces and the resolver's expiry jitter replay bit for bit. SQLite's own use of /dev/urandom (WAL salts) is not redirected and does not influence behaviour.",
    "Everything runs on one thread with a poll-once executor; a future that is ever pending is a harness error. Concurrent PAM sessions, the background prefetch task running in parallel with logins, and crashes in the middle of a cache write are not explored.",
    "An accept that the server model did not itself grant during that login is treated as an offline accept whatever the network mode (it was decided from the cache). The reverse direction (the offline path must accept the justified password) is only demanded when the real code itself chose the offline session.",
    "Sampled, not exhaustive: a clean batch is evidence, not proof.",
]

COMPONENTS = {
    "real": [
        "resolver.rs: Resolver::{pam_account_authenticate_init, pam_account_authenticate_step, get_nssaccount_name_time, refresh_usertoken, clear_cache, invalidate, mark_offline, mark_next_check_now} incl. token cache expiry, negative cache and async refresh queue",
        "idprovider/kanidm.rs: KanidmProvider::{new (HMAC key fetch-or-create + load), unix_user_get, unix_user_online_auth_init/_step (incl. the cached-credential update on success), unix_user_can_offline_auth, unix_user_offline_auth_init/_step, attempt_online / check_online state machine}, UserToken::{kanidm_update_cached_password, kanidm_check_cached_password, kanidm_has_offline_credentials}",
        "idprovider/interface.rs, idprovider/system.rs (empty system provider)",
        "db.rs: Db / DbTxn / KeyStoreTxn on a SQLite file under /dev/shm (token cache tables, hsm_int_t, hsm_data_t, migrate, clear_hsm), rusqlite bundled SQLite in WAL mode",
        "kanidm_lib_crypto: CryptoPolicy::time_target, Password::new_argon2id_hsm, Password::try_from(DbPasswordV1), Password::verify_ctx (TPM_ARGON2ID with HMAC-S256 through the TPM context), argon2 crate",
        "kanidm-hsm-crypto 0.3.6 SoftTpm: root_storage_key_create/load, hmac_s256_create/load, hmac_s256 (AES-256-GCM key wrapping via crypto-glue)",
        "kanidm_proto (UnixUserToken, OperationError), sparkle_unix_common (unix_proto, unix_config, constants)",
    ],
    "stub": [
        "kanidm_client crate: KanidmClient (whoami, auth_anonymous, set_token, idm_account_unix_token_get, idm_group_unix_token_get, idm_account_unix_cred_verify), ClientError; answers from the simulator's server model / scripted network mode",
        "identity server (model: accounts, current password, reachability)",
        "wall clock and monotonic clock (interposed clock_gettime), OS entropy (interposed getrandom)",
        "daemon start-up glue of kanidm_unixd (mirrored, source-text pinned); hsm pin file -> auth value derivation (auth value injected directly)",
        "copying of cache rows / sealed key blobs / DB files between machines (harness, through the real Db API and SQLite VACUUM INTO)",
    ],
    "not_run": [
        "libs/client (reqwest, TLS, connection and request timeouts, version check)",
        "kanidm_unixd main loop, unix socket protocol, tasks daemon, home directory handling, config file parsing",
        "pam_kanidm / nss_kanidm modules (see C43 for the PAM side)",
        "hardware TPM provider (tss-esapi), hsm pin derivation (AuthValue::derive_from_bytes)",
        "unix_user_authorise / pam_account_allowed (account phase), device authorization grant and MFA credential handlers",
        "the real kanidm server's unix credential verification (server/lib idm unix auth)",
    ],
}

# cache row vs model early-warning counters: non-zero would mean the real cache holds a credential the
# model does not know of (or the reverse) before any offline decision exposed it
EXPECTED_ZERO = ("cache_row_without_model_credential", "model_credential_without_cache_row")

RULE = (
    "A case is one history generated from one integer (VERIF_SEED*2^32+i): 1-3 machines (own auth value, own SQLite cache + key store, "
    "own resolver), 1-3 accounts, a cache timeout in {60,300,900,3600} s, service-token on/off, and 8-34 (thorough: 10-60) explicit events: "
    "daemon (re)start, server-side password change (new or recycled password), network mode (up / unreachable / 500 / 401), PAM password login "
    "(current / former server password, password used here before, never-valid, empty, another user's), NSS lookup, background refresh, clock "
    "jumps around the cache timeout and the 180 s offline re-check, forced offline / re-check, cache clear / invalidate, cached token row copied "
    "to another machine, sealed HMAC key blob copied, whole DB copied, key-store loss (HMAC key only / full reset); 30% of the steps are short "
    "scenario snippets (verify-online -> lose server -> notice -> cached login; rotation; token theft; key loss; restart while offline). "
    "Non-trivial = at least one login in the history was decided by the resolver's OFFLINE path (unix_user_offline_auth_step ran against a cached "
    "credential). distinct_nontrivial = number of distinct scripts (64-bit digest of cfg + event list) among non-trivial runs, merged over all "
    "workers. distinct_schedules_or_states = number of distinct decision contexts met (network mode, session kind, how the attempted password "
    "relates to the last one verified here, whether a cached credential exists and matches, whose key sealed it, token expired or not, outcome); "
    "distinct_run_shapes = distinct ordered sets of such contexts per run."
)


def harness_error(msg):
    print(f"HARNESS-ERROR {msg}")
    sys.exit(2)


def build():
    env = dict(os.environ)
    p = subprocess.run([os.path.join(SIM, "build.sh")], capture_output=True, text=True, env=env)
    if p.returncode != 0:
        sys.stderr.write(p.stderr[-8000:])
        harness_error("build of /verif/sim-resolver failed")
    exe = p.stdout.strip().splitlines()[-1] if p.stdout.strip() else ""
    if not exe or not os.access(exe, os.X_OK):
        harness_error("build.sh did not report an executable")
    # run a private copy: a concurrent build against another KANIDM_SRC must not swap the file under us
    private = os.path.join(SCRATCH, "c44sim")
    shutil.copy2(exe, private)
    return private


def run_tool(exe, args, out_dir, logname):
    os.makedirs(out_dir, exist_ok=True)
    with open(os.path.join(out_dir, logname), "ab") as log:
        return subprocess.run([exe] + args, stdout=log, stderr=log, env=dict(os.environ)).returncode


def tail(path, n=3000):
    try:
        return open(path, "r", errors="replace").read()[-n:]
    except OSError:
        return ""


def run_batch(exe, out_dir, n, workers, long_scripts, wall_cap=None):
    os.makedirs(out_dir, exist_ok=True)
    procs = []
    t0 = time.monotonic()
    for w in range(workers):
        args = [exe, "batch", "--seed", str(SEED), "--n", str(n), "--workers", str(workers), "--worker", str(w), "--out", out_dir]
        if wall_cap is not None:
            args += ["--wall-cap", str(wall_cap)]
        if long_scripts:
            args += ["--long"]
        log = open(os.path.join(out_dir, f"w{w}.log"), "wb")
        procs.append((w, subprocess.Popen(args, stdout=log, stderr=log, env=dict(os.environ)), log))
    failed = []
    for w, p, log in procs:
        rc = p.wait()
        log.close()
        if rc != 0:
            failed.append((w, rc))
    wall = time.monotonic() - t0
    if failed:
        w, rc = failed[0]
        t = tail(os.path.join(out_dir, f"w{w}.log"))
        sys.stderr.write(t)
        pin = [l for l in t.splitlines() if l.startswith("HARNESS-ERROR")]
        harness_error(pin[-1][len("HARNESS-ERROR "):] if pin else f"worker {w} exited with {rc}")
    summaries, runs = [], {}
    for w in range(workers):
        with open(os.path.join(out_dir, f"w{w}.json")) as f:
            summaries.append(json.load(f))
        with open(os.path.join(out_dir, f"w{w}.jsonl")) as f:
            for line in f:
                r = json.loads(line)
                runs[r["i"]] = r
    return summaries, runs, wall


def add_maps(dst, src):
    for k, v in src.items():
        dst[k] = dst.get(k, 0) + v


SUM_KEYS = ("runs", "nontrivial", "events", "logins", "offline_decisions", "argon2id_evaluations", "stub_calls",
            "sim_time_s", "daemon_starts", "entropy_draws")


def aggregate(summaries):
    agg = {k: 0 for k in SUM_KEYS}
    agg.update({"faults": {}, "probes": {}, "kdfs": {}})
    violations, samples, herrs, violation_count, stopped = [], [], [], 0, []
    for s in summaries:
        for k in SUM_KEYS:
            agg[k] += s[k]
        for k in ("faults", "probes", "kdfs"):
            add_maps(agg[k], s[k])
        violations.extend(s["violations"])
        violation_count += s["violation_count"]
        samples.extend(s["samples"])
        herrs.extend(s["harness_errors"])
        if s.get("stopped_early_at") is not None:
            stopped.append(s["stopped_early_at"])
    violations.sort(key=lambda v: v["i"])
    samples.sort(key=lambda v: v["i"])
    herrs.sort(key=lambda v: v["i"])
    return agg, violations, violation_count, samples, herrs, stopped


def known_findings():
    try:
        with open(os.path.join(V, "KNOWN_FINDINGS.json")) as f:
            return [x for x in json.load(f).get("findings", []) if x.get("status") == "known" and x.get("property") == PROP]
    except (OSError, ValueError):
        return []


def make_replay(exe, viol, gen_cfg, tag):
    """Minimise a violating script, write the replay file, confirm it in a fresh process."""
    work = os.path.join(SCRATCH, f"min-{tag}")
    os.makedirs(work, exist_ok=True)
    cand = os.path.join(work, "candidate.json")
    with open(cand, "w") as f:
        json.dump({"property": PROP, "oracle": viol["oracle"], "signature": viol["signature"], "seed": viol["seed"],
                   "run_index": viol["i"], "verif_seed": SEED, "cfg": viol["cfg"], "generator": gen_cfg,
                   "events": viol["events"], "violation": {"step": viol["step"], "summary": viol["summary"]}}, f)
    os.makedirs(REPLAY_DIR, exist_ok=True)
    dest = os.path.join(REPLAY_DIR, f"{viol['seed']}-{viol['oracle']}.json")
    if os.path.exists(dest):
        os.remove(dest)
    rc = run_tool(exe, ["minimise", cand, dest], work, "minimise.log")
    if rc != 0 or not os.path.exists(dest):
        sys.stderr.write(tail(os.path.join(work, "minimise.log")))
        harness_error(f"minimiser failed on run {viol['i']} (a violation found in the batch did not reproduce in a fresh process)")
    rc = run_tool(exe, ["replay", dest, "--out", work, "--quiet"], work, "replay.log")
    try:
        res = json.load(open(os.path.join(work, "replay.json")))
    except (OSError, ValueError):
        res = None
    if rc != 0 or not res or not res.get("violation") or not res.get("same_as_recorded"):
        harness_error(f"replay file {dest} does not reproduce in a fresh process")
    return dest


def validate_evidence(path):
    schema = "/root/.vp/EVIDENCE.schema.json"
    py = shutil.which("python3-vt")
    if not py or not os.path.exists(schema):
        return
    code = "import json,jsonschema,sys; jsonschema.validate(json.load(open(sys.argv[1])), json.load(open(sys.argv[2])))"
    p = subprocess.run([py, "-c", code, path, schema], capture_output=True, text=True)
    if p.returncode != 0:
        sys.stderr.write(p.stderr[-2000:])
        harness_error("evidence file does not validate against the schema")


def check(tier):
    t_start = time.monotonic()
    exe = build()
    out = os.path.join(SCRATCH, "batch")
    n = QUICK_N if tier == "quick" else THOROUGH_N
    cap = QUICK_WALL_CAP_S if tier == "quick" else THOROUGH_WALL_CAP_S
    long_scripts = tier != "quick"
    summaries, runs, wall = run_batch(exe, out, n, WORKERS, long_scripts, wall_cap=cap)
    agg, violations, violation_count, samples, herrs, stopped = aggregate(summaries)
    if herrs:
        h = herrs[0]
        print(f"  run {h['i']} (seed {h['seed']}): {h['error']}")
        harness_error(f"{len(herrs)} run(s) ended in a harness inconsistency; first: run {h['i']}: {h['error']}")
    if agg["runs"] == 0:
        harness_error("no run was executed")
    gen_cfg = {"long_scripts": long_scripts, "verif_seed": SEED}

    # ---- violations ---------------------------------------------------------------------
    known = known_findings()
    groups = {}
    for v in violations:
        groups.setdefault((v["oracle"], v["signature"]), v)
    known_hit, new = [], []
    for (oracle, sig), v in sorted(groups.items(), key=lambda kv: kv[1]["i"]):
        k = next((x for x in known if x.get("oracle") == oracle and x.get("signature") == sig), None)
        if k:
            known_hit.append({"oracle": oracle, "signature": sig, "what": k.get("what", ""), "first_run": v["i"]})
            print(f"KNOWN-FINDING: property={PROP} {k.get('what', '')}")
        else:
            new.append(v)
    replay_path = None
    if new:
        replay_path = make_replay(exe, new[0], gen_cfg, "new")

    # ---- coverage -----------------------------------------------------------------------
    distinct_scripts = len({r["script"] for r in runs.values() if r["nontrivial"]})
    contexts = set()
    for r in runs.values():
        contexts.update(r["contexts"])
    shapes = len({r["shape"] for r in runs.values() if r["nontrivial"]})
    fault_kinds = summaries[0]["fault_kinds"]
    probe_kinds = summaries[0]["probe_kinds"]
    evidence = {
        "property_id": PROP, "tier": tier, "seed": SEED, "level": "exploration",
        "wall_s": round(time.monotonic() - t_start, 3), "violations": violation_count,
        "assumptions": ASSUMPTIONS,
        "coverage": {
            "evaluations": agg["runs"],
            "distinct_nontrivial": distinct_scripts,
            "rule": RULE,
            "samples": samples[:3],
            "exhaustive": False,
            "simulated_runs": agg["runs"],
            "nontrivial_runs": agg["nontrivial"],
            "events_executed": agg["events"],
            "logins": agg["logins"],
            "offline_path_decisions": agg["offline_decisions"],
            "argon2id_evaluations": agg["argon2id_evaluations"],
            "kdf_parameters_seen": agg["kdfs"],
            "daemon_starts": agg["daemon_starts"],
            "server_model_calls": agg["stub_calls"],
            "entropy_draws_served": agg["entropy_draws"],
            "runs_per_hour": int(agg["runs"] / wall * 3600) if wall > 0 else 0,
            "batch_wall_s": round(wall, 3),
            "workers": WORKERS,
            "planned_runs": n,
            "stopped_early_by_wall_cap": bool(stopped),
            "simulated_time_covered_s": agg["sim_time_s"],
            "faults_fired": agg["faults"],
            "faults_at_zero": [k for k in fault_kinds if agg["faults"].get(k, 0) == 0],
            "probes": agg["probes"],
            "probes_at_zero": [k for k in probe_kinds if agg["probes"].get(k, 0) == 0 and k not in EXPECTED_ZERO],
            "divergence_probes_expected_zero": {k: agg["probes"].get(k, 0) for k in EXPECTED_ZERO},
            "distinct_schedules_or_states": len(contexts),
            "distinct_run_shapes": shapes,
            "distinct_violation_signatures": [f"{o}: {s}" for (o, s) in sorted(groups)],
            "known_findings_hit": known_hit,
            "components": COMPONENTS,
            "cfg": {"generator": gen_cfg, "quick_n": QUICK_N, "wall_cap_s": cap, "kanidm_src": os.environ.get("KANIDM_SRC", "/repo")},
        },
    }
    os.makedirs(EVIDENCE_DIR, exist_ok=True)
    epath = os.path.join(EVIDENCE_DIR, f"{PROP}.json")
    with open(epath, "w") as f:
        json.dump(evidence, f, indent=1, sort_keys=True)
    validate_evidence(epath)

    rate = agg["runs"] / wall if wall > 0 else 0
    print(f"{PROP} {tier}: {agg['runs']} histories ({distinct_scripts} distinct non-trivial, {agg['offline_decisions']} offline-path "
          f"decisions of which {agg['probes'].get('offline_accept_last_verified_password', 0)} accepts, {len(contexts)} decision contexts) "
          f"in {wall:.1f}s ({rate:.1f}/s, {WORKERS} workers), violating runs={violation_count}, "
          f"known findings hit={len(known_hit)}, seed={SEED}")
    if replay_path:
        v = new[0]
        print(f"  first new violation: run {v['i']} oracle={v['oracle']} signature={v['signature']}")
        print(f"  {v['summary']}")
        print(f"VIOLATION property={PROP} replay={replay_path}")
        sys.exit(1)
    sys.exit(0)


def replay(path):
    if not os.path.exists(path):
        harness_error(f"no such replay file: {path}")
    exe = build()
    work = os.path.join(SCRATCH, "replay")
    os.makedirs(work, exist_ok=True)
    rc = subprocess.run([exe, "replay", os.path.abspath(path), "--out", work], env=dict(os.environ)).returncode
    try:
        res = json.load(open(os.path.join(work, "replay.json")))
    except (OSError, ValueError):
        res = None
    if rc != 0 or res is None:
        harness_error("replay process failed")
    if res.get("violation"):
        recorded = json.load(open(path))
        if res.get("oracle") == recorded.get("oracle"):
            if not res.get("same_as_recorded"):
                print(f"note: same oracle, signature now {res.get('signature')!r}")
            sys.exit(1)
        print(f"note: a different oracle fired ({res.get('oracle')}); the recorded violation did not reproduce")
    sys.exit(0)


def selfcheck(n):
    exe = build()
    work = os.path.join(SCRATCH, "selfcheck")
    rc = run_tool(exe, ["selftest", "--out", work], work, "selftest.log")
    try:
        st = json.load(open(os.path.join(work, "selftest.json")))
    except (OSError, ValueError):
        st = None
    if rc != 0 or not st or not st.get("ok"):
        sys.stderr.write(tail(os.path.join(work, "selftest.log")))
        if st:
            for p in st.get("problems", []):
                print(f"  selftest: {p}")
        harness_error("harness self test failed (source pins / time seam / entropy seam / canonical scenarios / planted model faults)")
    print(f"selftest ok: source-text pins hold, time and entropy seams effective, {st['scenarios']} canonical scenarios as expected, "
          f"{st['planted_faults']} planted model faults reported by the two oracles; kdf seen {st['kdf_seen']}")

    layouts = [("A", 1), ("B", 3), ("C", WORKERS), ("D", 7)]
    digests, covs = {}, {}
    for name, workers in layouts:
        d = os.path.join(work, f"det-{name}")
        summaries, runs, _ = run_batch(exe, d, n, workers, False)
        digests[name] = {i: r["digest"] for i, r in runs.items()}
        agg, _, vc, _, herrs, _ = aggregate(summaries)
        if herrs:
            harness_error(f"determinism batch {name}: run {herrs[0]['i']}: {herrs[0]['error']}")
        covs[name] = json.dumps([agg, vc], sort_keys=True)
    ref = digests["A"]
    if len(ref) != n:
        harness_error(f"determinism: expected {n} digests, got {len(ref)}")
    for name, _ in layouts[1:]:
        diff = [i for i in range(n) if digests[name].get(i) != ref[i]]
        if diff:
            harness_error(f"determinism: layout {name} differs from A on {len(diff)} runs, first i={diff[0]}")
        if covs[name] != covs["A"]:
            harness_error(f"determinism: aggregated coverage of layout {name} differs from A")
    print(f"determinism ok: {n} runs x 4 executions (separate processes; 1, 3, {WORKERS} and 7 workers): all per-run trace digests "
          f"(events, outcomes, server calls and the bytes of every sealed credential) and aggregated counters identical")
    sys.exit(0)


def main():
    if len(sys.argv) < 2:
        harness_error("usage: C44.sh quick | thorough | replay <file> | selfcheck [n]")
    cmd = sys.argv[1]
    if cmd in ("quick", "thorough"):
        check(cmd)
    elif cmd == "replay":
        if len(sys.argv) < 3:
            harness_error("usage: C44.sh replay <file>")
        replay(sys.argv[2])
    elif cmd == "selfcheck":
        selfcheck(int(sys.argv[2]) if len(sys.argv) > 2 else 96)
    else:
        harness_error(f"unknown command {cmd}")


if __name__ == "__main__":
    main()
