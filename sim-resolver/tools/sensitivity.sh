#!/bin/bash
# Sensitivity proof for C44: on a scratch copy of the kanidm tree under /dev/shm, make one
# property-breaking edit at a time, build the check against the copy (KANIDM_SRC), run the
# quick tier and confirm it reports the edit with a replay file that reproduces.
# Nothing under /repo or /verif/evidence, /verif/replays is touched; the scratch is removed.
#
#   tools/sensitivity.sh [mutant ...]      (default: all)
set -u
export CARGO_NET_OFFLINE=true RUSTUP_TOOLCHAIN=1.96.0
S="/dev/shm/c44-sens-$$"
trap 'rm -rf "$S"' EXIT
mkdir -p "$S/out"
echo "copying /repo (without target/.git) to $S/repo ..."
mkdir -p "$S/repo"
( cd /repo && tar --exclude=./target --exclude=./.git -cf - . ) | ( cd "$S/repo" && tar -xf - )

export KANIDM_SRC="$S/repo" C44_WS="$S/ws"
export C44_EVIDENCE_DIR="$S/out/evidence" C44_REPLAY_DIR="$S/out/replays"
export C44_N="${C44_N:-480}"
KANIDM=unix_integration/resolver_common/src/idprovider/kanidm.rs
IFACE=unix_integration/resolver_common/src/idprovider/interface.rs
RESOLVER=unix_integration/resolver_common/src/resolver.rs
CRYPTO=libs/crypto/src/lib.rs

restore() { for f in $KANIDM $IFACE $RESOLVER $CRYPTO; do cp "/repo/$f" "$S/repo/$f"; done; }

edit() { # file, python expression transforming s
  python3 - "$S/repo/$1" "$2" <<'PY'
import sys
path, expr = sys.argv[1], sys.argv[2]
s = open(path).read()
t = eval(expr, {"s": s})
if t == s:
    sys.exit("edit did not apply to " + path)
open(path, "w").write(t)
PY
}

apply_mutant() {
  case "$1" in
    check-without-tpm-context)
      # kanidm_check_cached_password: the TPM context / HMAC key is not handed to the verifier
      edit $KANIDM 's.replace("""        pw.verify_ctx(cred, Some((tpm_ctx, hmac_key)))
            .unwrap_or_default()""", """        let _ = (tpm_ctx, hmac_key);
        pw.verify_ctx(cred, None).unwrap_or_default()""", 1)' ;;
    credential-not-bound-to-machine-key)
      # Password::new_argon2id_hsm / verify_ctx: the HMAC under the TPM-held key is computed but
      # the plain argon2id output is what gets stored and compared: the cached credential
      # verifies on any machine
      edit $CRYPTO 's.replace("""                    .map(|hmac_output| hmac_output.into_bytes().to_vec())
            })
            .map(|key| Kdf::TPM_ARGON2ID {""", """                    .map(|_hmac_output| check_key.clone())
            })
            .map(|key| Kdf::TPM_ARGON2ID {""", 1).replace("""                    .map(|hmac_key| {
                        // Actually compare the outputs.
                        hmac_key.into_bytes().as_slice() == key
                    })
            }
            (Kdf::TPM_ARGON2ID { .. }, None) => {""", """                    .map(|_hmac_key| {
                        // Actually compare the outputs.
                        check_key.as_slice() == key.as_slice()
                    })
            }
            (Kdf::TPM_ARGON2ID { .. }, None) => {""", 1)' ;;
    cache-updated-on-failed-online-attempt)
      # A "denied, but remember something about the attempt" result (as for lockout counters) is
      # introduced; the provider also refreshes the cached password in it although the server
      # refused the credential.
      edit $IFACE 's.replace("""    SuccessUpdate { new_token: UserToken },
    Denied,""", """    SuccessUpdate { new_token: UserToken },
    DeniedUpdate { new_token: UserToken },
    Denied,""", 1)'
      edit $KANIDM 's.replace("""                        // at the start of the auth and checking for account validity instead.
                        Ok(AuthResult::Denied)""", """                        // at the start of the auth and checking for account validity instead.
                        if let Some(previous_token) = current_token {
                            let mut new_token = previous_token.clone();
                            new_token.kanidm_update_cached_password(
                                &inner.crypto_policy,
                                cred.as_str(),
                                tpm,
                                &inner.hmac_key,
                            );
                            return Ok(AuthResult::DeniedUpdate { new_token });
                        }
                        Ok(AuthResult::Denied)""", 1)'
      edit $RESOLVER 's.replace("""            Ok(AuthResult::Denied) => {
                *auth_session = AuthSession::Denied;

                Ok(PamAuthResponse::Denied)
            }""", """            Ok(AuthResult::DeniedUpdate { mut new_token }) => {
                self.set_cache_usertoken(&mut new_token, hsm_lock.deref_mut())
                    .await?;
                *auth_session = AuthSession::Denied;

                Ok(PamAuthResponse::Denied)
            }
            Ok(AuthResult::Denied) => {
                *auth_session = AuthSession::Denied;

                Ok(PamAuthResponse::Denied)
            }""", 1).replace("""                    Ok(AuthResult::Denied) => {
                        info!(?account_id, "Authentication Denied");
                    }""", """                    Ok(AuthResult::Denied | AuthResult::DeniedUpdate { .. }) => {
                        info!(?account_id, "Authentication Denied");
                    }""")' ;;
    old-credential-kept-on-change)
      # kanidm_update_cached_password keeps the previous hash next to the new one and
      # kanidm_check_cached_password accepts either
      edit $KANIDM 's.replace("""        self.extra_keys.insert(KANIDM_PWV1_KEY.into(), pw_value);
        debug!(spn = %self.spn, "Updated cached pw");""", """        if let Some(old) = self.extra_keys.get(KANIDM_PWV1_KEY).cloned() {
            self.extra_keys.insert("kanidm-pw-v1-prev".into(), old);
        }
        self.extra_keys.insert(KANIDM_PWV1_KEY.into(), pw_value);
        debug!(spn = %self.spn, "Updated cached pw");""", 1).replace("""        let tpm_ctx: &mut dyn TpmHmacS256 = &mut **tpm;

        pw.verify_ctx(cred, Some((tpm_ctx, hmac_key)))
            .unwrap_or_default()""", """        let tpm_ctx: &mut dyn TpmHmacS256 = &mut **tpm;

        if pw
            .verify_ctx(cred, Some((&mut *tpm_ctx, hmac_key)))
            .unwrap_or_default()
        {
            return true;
        }
        self.extra_keys
            .get("kanidm-pw-v1-prev")
            .and_then(|v| serde_json::from_value::<DbPasswordV1>(v.clone()).ok())
            .and_then(|d| Password::try_from(d).ok())
            .map(|p| {
                p.verify_ctx(cred, Some((tpm_ctx, hmac_key)))
                    .unwrap_or_default()
            })
            .unwrap_or(false)""", 1)' ;;
    cache-not-replaced-when-present)
      # kanidm_update_cached_password only fills an empty slot: after a password change the old
      # password stays the offline credential
      edit $KANIDM 's.replace("""        self.extra_keys.insert(KANIDM_PWV1_KEY.into(), pw_value);
        debug!(spn = %self.spn, "Updated cached pw");""", """        self.extra_keys
            .entry(KANIDM_PWV1_KEY.into())
            .or_insert(pw_value);
        debug!(spn = %self.spn, "Updated cached pw");""", 1)' ;;
    offline-step-accepts-when-no-match)
      # unix_user_offline_auth_step: inverted test
      edit $KANIDM 's.replace("""                if session_token.kanidm_check_cached_password(cred.as_str(), tpm, &inner.hmac_key) {
                    // Ensure we have either""", """                if !session_token.kanidm_check_cached_password(cred.as_str(), tpm, &inner.hmac_key) {
                    // Ensure we have either""", 1)' ;;
    *) echo "unknown mutant $1"; return 1 ;;
  esac
}

ALL="check-without-tpm-context credential-not-bound-to-machine-key cache-updated-on-failed-online-attempt old-credential-kept-on-change cache-not-replaced-when-present offline-step-accepts-when-no-match"
MUTANTS="${*:-$ALL}"
caught=0; missed=0
for m in $MUTANTS; do
  restore
  apply_mutant "$m" || { echo "MUTANT $m: could not apply"; missed=$((missed+1)); continue; }
  rm -rf "$S/out/replays"
  out="$(/verif/sim-ext/C44.sh quick 2>&1)"; rc=$?
  line="$(echo "$out" | grep '^VIOLATION ' | head -1)"
  if [ $rc -eq 1 ] && [ -n "$line" ]; then
    f="${line##*replay=}"
    /verif/sim-ext/C44.sh replay "$f" > "$S/out/replay.txt" 2>&1; rrc=$?
    sig="$(python3 -c "import json,sys;d=json.load(open(sys.argv[1]));print(d['oracle'],'|',d['signature'],'| events',d['minimised']['events_before'],'->',d['minimised']['events_after'])" "$f")"
    if [ $rrc -eq 1 ]; then
      echo "MUTANT $m: CAUGHT ($sig); replay reproduces"
      python3 -c "import json,sys;d=json.load(open(sys.argv[1]));[print('     ',json.dumps(e)) for e in d['events']]" "$f"
      caught=$((caught+1))
    else
      echo "MUTANT $m: reported but replay exit $rrc"; tail -5 "$S/out/replay.txt"; missed=$((missed+1))
    fi
  else
    echo "MUTANT $m: NOT caught (exit $rc)"; echo "$out" | tail -8
    missed=$((missed+1))
  fi
done
# and the unchanged copy must be clean
restore
out="$(/verif/sim-ext/C44.sh quick 2>&1)"; rc=$?
echo "UNCHANGED copy: exit $rc: $(echo "$out" | tail -1)"
echo "sensitivity: caught=$caught missed=$missed"
[ $missed -eq 0 ] && [ $rc -eq 0 ]
