//! Time seam. resolver.rs reads `SystemTime::now()` (token expiry, negative cache, the time at
//! which a provider may next try to go online) and kanidm_lib_crypto's
//! `CryptoPolicy::time_target` benchmarks argon2id with `Instant::now()`. Neither may be wall
//! clock in a simulation and neither can be edited. `std` reaches the kernel through the libc
//! symbol `clock_gettime`; a definition in the executable takes precedence over libc.so's.
//!
//! While a run is active ON THIS THREAD:
//!  * CLOCK_REALTIME is the run's simulated wall clock. It moves only when the simulator says so
//!    (one second per event, plus explicit `advance` events).
//!  * CLOCK_MONOTONIC advances by one second on every observation. The only consumer is the
//!    argon2id benchmark, which therefore always measures "1 s" for its first trial, sees the
//!    250 ms target exceeded and keeps the smallest parameters its loop can produce
//!    (m = 8 MiB, t = 2, p = 1). That pins the cost deterministically and at the minimum this
//!    code path allows.
//! Outside a run the calls go to the kernel.
use std::cell::Cell;

pub const EPOCH_S: u64 = 1_700_000_000;

thread_local! {
    static ACTIVE: Cell<bool> = const { Cell::new(false) };
    static REAL_NS: Cell<u64> = const { Cell::new(0) };
    static MONO_NS: Cell<u64> = const { Cell::new(0) };
    static OBS_REAL: Cell<u64> = const { Cell::new(0) };
    static OBS_MONO: Cell<u64> = const { Cell::new(0) };
}

fn active() -> bool {
    ACTIVE.try_with(|a| a.get()).unwrap_or(false)
}

pub fn begin() {
    REAL_NS.with(|c| c.set(EPOCH_S * 1_000_000_000));
    MONO_NS.with(|c| c.set(1_000_000_000));
    OBS_REAL.with(|c| c.set(0));
    OBS_MONO.with(|c| c.set(0));
    ACTIVE.with(|a| a.set(true));
}

pub struct ClockStats {
    pub elapsed_s: u64,
    pub obs_real: u64,
    pub obs_mono: u64,
}

pub fn end() -> ClockStats {
    ACTIVE.with(|a| a.set(false));
    ClockStats {
        elapsed_s: now_s() - EPOCH_S,
        obs_real: OBS_REAL.with(|c| c.get()),
        obs_mono: OBS_MONO.with(|c| c.get()),
    }
}

pub fn advance_s(s: u64) {
    REAL_NS.with(|c| c.set(c.get().saturating_add(s.saturating_mul(1_000_000_000))));
}

pub fn now_s() -> u64 {
    REAL_NS.with(|c| c.get()) / 1_000_000_000
}

/// # Safety
/// libc ABI.
#[no_mangle]
pub unsafe extern "C" fn clock_gettime(clk: libc::clockid_t, ts: *mut libc::timespec) -> libc::c_int {
    if active() && !ts.is_null() {
        let v = if clk == libc::CLOCK_REALTIME || clk == libc::CLOCK_REALTIME_COARSE {
            let _ = OBS_REAL.try_with(|c| c.set(c.get() + 1));
            Some(REAL_NS.with(|c| c.get()))
        } else if clk == libc::CLOCK_MONOTONIC
            || clk == libc::CLOCK_BOOTTIME
            || clk == libc::CLOCK_MONOTONIC_RAW
            || clk == libc::CLOCK_MONOTONIC_COARSE
        {
            let _ = OBS_MONO.try_with(|c| c.set(c.get() + 1));
            Some(MONO_NS.with(|c| {
                let v = c.get().saturating_add(1_000_000_000);
                c.set(v);
                v
            }))
        } else {
            None
        };
        if let Some(now) = v {
            (*ts).tv_sec = (now / 1_000_000_000) as libc::time_t;
            (*ts).tv_nsec = (now % 1_000_000_000) as libc::c_long;
            return 0;
        }
    }
    libc::syscall(libc::SYS_clock_gettime, clk as libc::c_long, ts) as libc::c_int
}

/// Real monotonic seconds, for the worker's wall-clock cap and rate measurement only (never
/// inside a run, never influences a run).
pub fn real_monotonic_s() -> f64 {
    let mut ts = libc::timespec { tv_sec: 0, tv_nsec: 0 };
    unsafe {
        libc::syscall(libc::SYS_clock_gettime, libc::CLOCK_MONOTONIC as libc::c_long, &mut ts as *mut libc::timespec);
    }
    ts.tv_sec as f64 + ts.tv_nsec as f64 / 1e9
}
