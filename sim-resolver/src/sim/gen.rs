//! Script generator: one integer -> (cfg, explicit event list).
//!
//! The generator only tracks what it can know without running kanidm code (server-side
//! passwords, the network mode it set, which passwords it has already used for logins on which
//! machine). How each login relates to "the last password verified online here" is decided at
//! execution time by the model, not here.
use super::prng::Prng;
use super::script::{Cfg, Event, Script};

struct G {
    r: Prng,
    machines: usize,
    users: usize,
    timeout: u64,
    server_pw: Vec<String>,
    server_hist: Vec<Vec<String>>,
    tried: Vec<Vec<Vec<String>>>, // [m][u] passwords used in earlier logins
    pw_counter: Vec<u32>,
    nv_counter: u32,
    net_up: bool,
    ev: Vec<Event>,
}

impl G {
    fn m(&mut self) -> usize {
        self.r.below(self.machines as u64) as usize
    }
    fn u(&mut self) -> usize {
        self.r.below(self.users as u64) as usize
    }
    fn other_m(&mut self, m: usize) -> usize {
        if self.machines < 2 {
            return m;
        }
        let o = self.r.below(self.machines as u64 - 1) as usize;
        if o >= m {
            o + 1
        } else {
            o
        }
    }

    fn new_pw(&mut self, u: usize) -> String {
        self.pw_counter[u] += 1;
        format!("u{u}-secret-{}", self.pw_counter[u])
    }

    fn set_server_pw(&mut self, u: usize) {
        // mostly a brand-new password; sometimes an earlier one comes back
        let pw = if self.server_hist[u].len() > 1 && self.r.pct(20) {
            let k = self.r.below(self.server_hist[u].len() as u64) as usize;
            self.server_hist[u][k].clone()
        } else {
            self.new_pw(u)
        };
        if pw == self.server_pw[u] {
            return;
        }
        self.server_pw[u] = pw.clone();
        self.server_hist[u].push(pw.clone());
        self.ev.push(Event::ServerSetPassword { u, pw });
    }

    fn pick_pw(&mut self, m: usize, u: usize) -> String {
        // current server pw / former server pw / used here before / never valid / empty / other user's
        let w = [44u64, 18, 12, 12, 5, 9];
        for _ in 0..4 {
            match self.r.weighted(&w) {
                0 => return self.server_pw[u].clone(),
                1 => {
                    if self.server_hist[u].len() > 1 {
                        let k = self.r.below(self.server_hist[u].len() as u64 - 1) as usize;
                        return self.server_hist[u][k].clone();
                    }
                }
                2 => {
                    if !self.tried[m][u].is_empty() {
                        let k = self.r.below(self.tried[m][u].len() as u64) as usize;
                        return self.tried[m][u][k].clone();
                    }
                }
                3 => {
                    self.nv_counter += 1;
                    return format!("never-valid-{}", self.nv_counter);
                }
                4 => return String::new(),
                _ => {
                    if self.users > 1 {
                        let o = (u + 1 + self.r.below(self.users as u64 - 1) as usize) % self.users;
                        return self.server_pw[o].clone();
                    }
                }
            }
        }
        self.server_pw[u].clone()
    }

    fn login(&mut self, m: usize, u: usize, pw: String) {
        if !self.tried[m][u].contains(&pw) {
            self.tried[m][u].push(pw.clone());
        }
        self.ev.push(Event::Login { m, u, pw });
    }

    fn advance(&mut self) {
        let t = self.timeout;
        let choices = [3, 30, 59, 61, 170, 200, t.saturating_sub(12), t.saturating_sub(1), t + 1, t + 15, 2 * t + 7, 3700, 90_000];
        let secs = choices[self.r.below(choices.len() as u64) as usize].max(1);
        self.ev.push(Event::Advance { secs });
    }

    fn net(&mut self, mode: &str) {
        self.net_up = mode == "up";
        self.ev.push(Event::Net { mode: mode.to_string() });
    }

    /// Ways in which a machine finds out that the server is gone.
    fn notice_outage(&mut self, m: usize) {
        match self.r.weighted(&[30, 30, 20, 12, 8]) {
            0 => self.ev.push(Event::Boot { m }),
            1 => self.ev.push(Event::MarkOffline { m }),
            2 => {
                let secs = self.timeout + 1 + self.r.below(600);
                self.ev.push(Event::Advance { secs });
            }
            3 => {
                self.ev.push(Event::Invalidate { m });
                let u = self.u();
                self.ev.push(Event::Lookup { m, u });
            }
            _ => {
                let secs = self.timeout + 1 + self.r.below(100);
                self.ev.push(Event::Advance { secs });
                let u = self.u();
                self.ev.push(Event::Lookup { m, u });
                self.ev.push(Event::Background { m });
            }
        }
    }

    fn snippet(&mut self) {
        let m = self.m();
        let u = self.u();
        match self.r.weighted(&[22, 18, 16, 10, 10, 12, 12]) {
            // verify online, lose the server, log in from cache
            0 => {
                if !self.net_up {
                    self.net("up");
                    self.ev.push(Event::MarkNextCheck { m });
                }
                let pw = self.server_pw[u].clone();
                self.login(m, u, pw);
                self.net("unreachable");
                self.notice_outage(m);
                let pw = self.pick_pw(m, u);
                self.login(m, u, pw);
            }
            // password rotation: old verified, server changes, new verified, offline with old / new
            1 => {
                if !self.net_up {
                    self.net("up");
                    self.ev.push(Event::MarkNextCheck { m });
                }
                let old = self.server_pw[u].clone();
                self.login(m, u, old.clone());
                self.set_server_pw(u);
                if self.r.pct(70) {
                    let new = self.server_pw[u].clone();
                    self.login(m, u, new);
                } else {
                    // the stale password is refused online; it stays the last one verified here
                    self.login(m, u, old.clone());
                }
                self.net("unreachable");
                self.notice_outage(m);
                let pw = if self.r.pct(50) { old } else { self.pick_pw(m, u) };
                self.login(m, u, pw);
            }
            // cached token carried to another machine
            2 => {
                if self.machines > 1 {
                    let to = self.other_m(m);
                    self.ev.push(Event::CopyToken { u, from: m, to });
                    if self.r.pct(60) {
                        if self.net_up && self.r.pct(60) {
                            self.net("unreachable");
                        }
                        self.notice_outage(to);
                    }
                    let pw = if self.r.pct(75) { self.server_pw[u].clone() } else { self.pick_pw(m, u) };
                    self.login(to, u, pw);
                }
            }
            // sealed hmac key blob carried along (with or without the token)
            3 => {
                if self.machines > 1 {
                    let to = self.other_m(m);
                    if self.r.pct(60) {
                        self.ev.push(Event::CopyToken { u, from: m, to });
                    }
                    self.ev.push(Event::CopyHmacKey { from: m, to });
                    if self.r.pct(70) {
                        self.ev.push(Event::Boot { m: to });
                    }
                    let pw = self.server_pw[u].clone();
                    self.login(to, u, pw);
                }
            }
            // whole DB carried to another machine
            4 => {
                if self.machines > 1 {
                    let to = self.other_m(m);
                    self.ev.push(Event::CopyDb { from: m, to });
                    self.ev.push(Event::Boot { m: to });
                    let pw = self.server_pw[u].clone();
                    self.login(to, u, pw);
                    if self.r.pct(50) {
                        self.ev.push(Event::LoseKeyStore { m: to, what: "all".into() });
                        self.ev.push(Event::Boot { m: to });
                    }
                }
            }
            // key store loss, restart, offline attempt
            5 => {
                let what = if self.r.pct(65) { "hmac" } else { "all" };
                self.ev.push(Event::LoseKeyStore { m, what: what.into() });
                if self.r.pct(85) {
                    self.ev.push(Event::Boot { m });
                }
                if self.net_up && self.r.pct(50) {
                    self.net("unreachable");
                    self.notice_outage(m);
                }
                let pw = self.server_pw[u].clone();
                self.login(m, u, pw);
            }
            // restart while offline, then cached logins
            _ => {
                if self.net_up {
                    self.net("unreachable");
                }
                self.ev.push(Event::Boot { m });
                for _ in 0..self.r.range(1, 3) {
                    let uu = self.u();
                    let pw = self.pick_pw(m, uu);
                    self.login(m, uu, pw);
                }
            }
        }
    }

    fn single(&mut self) {
        let multi = self.machines > 1;
        let w = [
            34u64,                      // login
            8,                          // server password change
            10,                         // net
            6,                          // boot
            10,                         // advance
            6,                          // lookup
            3,                          // background
            4,                          // mark offline
            3,                          // mark next check
            2,                          // clear cache
            2,                          // invalidate
            if multi { 5 } else { 0 },  // copy token
            if multi { 2 } else { 0 },  // copy hmac key
            if multi { 2 } else { 0 },  // copy db
            3,                          // lose key store
        ];
        let m = self.m();
        let u = self.u();
        match self.r.weighted(&w) {
            0 => {
                let pw = self.pick_pw(m, u);
                self.login(m, u, pw);
            }
            1 => self.set_server_pw(u),
            2 => {
                let mode = if self.net_up {
                    ["unreachable", "unreachable", "unreachable", "http500", "unauthorized"][self.r.below(5) as usize]
                } else {
                    ["up", "up", "up", "unreachable", "http500"][self.r.below(5) as usize]
                };
                self.net(mode);
                if !self.net_up && self.r.pct(50) {
                    self.notice_outage(m);
                }
            }
            3 => self.ev.push(Event::Boot { m }),
            4 => self.advance(),
            5 => self.ev.push(Event::Lookup { m, u }),
            6 => self.ev.push(Event::Background { m }),
            7 => self.ev.push(Event::MarkOffline { m }),
            8 => self.ev.push(Event::MarkNextCheck { m }),
            9 => self.ev.push(Event::ClearCache { m }),
            10 => self.ev.push(Event::Invalidate { m }),
            11 => {
                let to = self.other_m(m);
                self.ev.push(Event::CopyToken { u, from: m, to });
            }
            12 => {
                let to = self.other_m(m);
                self.ev.push(Event::CopyHmacKey { from: m, to });
            }
            13 => {
                let to = self.other_m(m);
                self.ev.push(Event::CopyDb { from: m, to });
            }
            _ => {
                let what = if self.r.pct(60) { "hmac" } else { "all" };
                self.ev.push(Event::LoseKeyStore { m, what: what.into() });
            }
        }
    }
}

pub fn generate(seed: u64, tier_long: bool) -> Script {
    let mut r = Prng::new(seed, 0x6E4);
    let machines = [1usize, 2, 3][r.weighted(&[28, 55, 17])];
    let users = [1usize, 2, 3][r.weighted(&[40, 42, 18])];
    let timeout = [60u64, 300, 900, 3600][r.weighted(&[30, 40, 15, 15])];
    let service_token = r.pct(50);
    let initial: Vec<String> = (0..users).map(|u| format!("u{u}-secret-0")).collect();
    let target = if tier_long { r.range(10, 60) } else { r.range(8, 34) } as usize;
    let mut g = G {
        r,
        machines,
        users,
        timeout,
        server_pw: initial.clone(),
        server_hist: initial.iter().map(|p| vec![p.clone()]).collect(),
        tried: vec![vec![Vec::new(); users]; machines],
        pw_counter: vec![0; users],
        nv_counter: 0,
        net_up: true,
        ev: Vec::new(),
    };
    // daemons start (now and then one of them only later, or while the server is already gone)
    if g.r.pct(8) {
        g.net("unreachable");
    }
    for m in 0..machines {
        if !g.r.pct(8) {
            g.ev.push(Event::Boot { m });
        }
    }
    while g.ev.len() < target {
        if g.r.pct(30) {
            g.snippet();
        } else {
            g.single();
        }
    }
    Script {
        seed,
        cfg: Cfg {
            machines,
            users,
            cache_timeout: timeout,
            service_token,
            initial_passwords: initial,
        },
        events: g.ev,
    }
}
