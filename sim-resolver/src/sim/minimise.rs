//! Delta debugging of the event list: drop chunks of events while the same oracle + signature
//! still fires. Every candidate is executed from scratch (fresh machines, same seed).
use super::script::Script;
use super::world::Violation;
use super::run_script;

fn fires(s: &Script, oracle: &str, sig: &str, tests: &mut u64) -> Option<Violation> {
    *tests += 1;
    let o = run_script(s, "min");
    if o.harness_error.is_some() {
        return None;
    }
    match o.violation {
        Some(v) if v.oracle == oracle && v.signature == sig => Some(v),
        _ => None,
    }
}

pub fn minimise(script: &Script, oracle: &str, sig: &str) -> Result<(Script, Violation, u64), String> {
    let mut tests = 0u64;
    let mut best = script.clone();
    let mut best_v = fires(&best, oracle, sig, &mut tests)
        .ok_or_else(|| "the recorded violation does not reproduce in a fresh process".to_string())?;
    // nothing after the violating step matters
    best.events.truncate(best_v.step + 1);
    let mut chunk = (best.events.len() / 2).max(1);
    loop {
        let mut progressed = false;
        let mut start = 0;
        while start < best.events.len() {
            let end = (start + chunk).min(best.events.len());
            let mut cand = best.clone();
            cand.events.drain(start..end);
            if !cand.events.is_empty() {
                if let Some(v) = fires(&cand, oracle, sig, &mut tests) {
                    cand.events.truncate(v.step + 1);
                    best = cand;
                    best_v = v;
                    progressed = true;
                    continue; // same start: the next chunk moved here
                }
            }
            start = end;
        }
        if chunk == 1 && !progressed {
            break;
        }
        if !progressed {
            chunk = (chunk / 2).max(1);
        }
        if tests > 2500 {
            break;
        }
    }
    // shrink cfg: unused machines / users stay (they are part of the script's meaning)
    Ok((best, best_v, tests))
}
