//! Executes a script against the REAL resolver code and evaluates the oracle after every login.
//!
//! Real: `Resolver` (pam_account_authenticate_init / _step, token cache handling, online/offline
//! state handling), `KanidmProvider` (online auth step incl. the cached-credential update, offline
//! auth step, offline capability test, provider state machine), `UserToken::kanidm_*_cached_password`,
//! `Db` (SQLite file on /dev/shm: token cache + key store), `SoftTpm`, `Password::new_argon2id_hsm`
//! / `verify_ctx`. Stub: the `kanidm_client` crate (answers from `SimServer`). Mirrored from the
//! daemon's `main` (cli/resolver.rs, not linked): the start-up sequence in `World::boot`.
use super::clock;
use super::model::{AttemptClass, BootExpect, CachedRel, KeyRel, Model};
use super::prng::{Fnv, Prng};
use super::script::{user_name, Cfg, Event, Script};
use crate::db::{Cache, Db, KeyStoreTxn};
use crate::idprovider::interface::{Id, IdProvider};
use crate::idprovider::kanidm::KanidmProvider;
use crate::idprovider::system::SystemProvider;
use crate::resolver::{AuthSession, Resolver};
use kanidm_client::{Answer, KanidmClient, NetMode, SharedServer, SimGroup, SimServer, SimUser};
use kanidm_hsm_crypto::structures::LoadableHmacS256Key;
use kanidm_hsm_crypto::{
    provider::{BoxedDynTpm, SoftTpm, Tpm},
    AuthValue,
};
use sparkle_unix_common::constants::{
    DEFAULT_GID_ATTR_MAP, DEFAULT_HOME_ALIAS, DEFAULT_HOME_ATTR, DEFAULT_HOME_PREFIX,
    DEFAULT_SHELL, DEFAULT_UID_ATTR_MAP,
};
use sparkle_unix_common::unix_config::KanidmConfig;
use sparkle_unix_common::unix_proto::{PamAuthRequest, PamAuthResponse, PamServiceInfo};
use std::collections::BTreeMap;
use std::future::Future;
use std::path::PathBuf;
use std::sync::{Arc, Mutex};
use std::time::{Duration, SystemTime};
use tokio::sync::{broadcast, mpsc};

/// Tag under which KanidmProvider keeps its sealed HMAC key in the key store (private constant
/// `KANIDM_HMAC_KEY` in idprovider/kanidm.rs; pinned by a source-text check at start-up).
pub const HMAC_KEY_TAG: &str = "kanidm-hmac-key-v2";
/// Key of the cached credential inside `UserToken::extra_keys` (private constant
/// `KANIDM_PWV1_KEY`; pinned likewise). Only used to LOOK at the cache row for the trace.
pub const PWV1_KEY: &str = "kanidm-pw-v1";

/// Nothing in this simulation may ever wait: the stub client answers at once and every lock is
/// uncontended. A pending future is a harness error.
pub fn block_on<F: Future>(f: F) -> F::Output {
    let mut f = std::pin::pin!(f);
    let w = std::task::Waker::noop();
    let mut cx = std::task::Context::from_waker(w);
    match f.as_mut().poll(&mut cx) {
        std::task::Poll::Ready(v) => v,
        std::task::Poll::Pending => panic!("C44-SIM-HARNESS: a future was pending"),
    }
}

struct Running {
    resolver: Resolver,
    refresh_rx: mpsc::Receiver<Id>,
}

struct Machine {
    db_path: PathBuf,
    pin: [u8; 32],
    running: Option<Running>,
}

#[derive(Clone, Debug, PartialEq)]
pub struct Violation {
    pub oracle: String,
    pub signature: String,
    pub step: usize,
    pub summary: String,
}

#[derive(Default, Clone, Debug)]
pub struct RunStats {
    pub faults: BTreeMap<&'static str, u64>,
    pub probes: BTreeMap<&'static str, u64>,
    /// distinct decision contexts met in this run (categorical)
    pub contexts: Vec<String>,
    pub logins: u64,
    pub offline_decisions: u64,
    pub argon2_hashes: u64,
    pub stub_calls: u64,
    pub sim_time_s: u64,
    pub entropy_draws: u64,
    pub clock_obs: u64,
    /// KDF variant and cost parameters of every cached credential seen in a cache row
    pub kdfs: BTreeMap<String, u64>,
    pub daemon_starts: u64,
}

pub const FAULT_KINDS: &[&str] = &[
    "transport_error_answered",
    "http500_answered",
    "http401_answered",
    "server_password_changed",
    "daemon_restart",
    "token_moved_between_machines",
    "hmac_key_blob_moved",
    "db_file_moved",
    "key_store_lost_hmac",
    "key_store_lost_all",
    "cache_cleared",
    "cache_invalidated",
    "forced_offline",
    "clock_jump_past_cache_timeout",
];

pub const PROBE_KINDS: &[&str] = &[
    "offline_accept_last_verified_password",
    "offline_accept_after_restart",
    "offline_accept_with_expired_token",
    "offline_deny_earlier_verified_password",
    "offline_deny_current_server_password_not_verified_here",
    "offline_deny_never_valid_password",
    "offline_deny_empty_password",
    "offline_deny_credential_sealed_on_other_machine",
    "offline_deny_after_key_store_loss",
    "offline_refused_no_cached_credential",
    "offline_unknown_user_no_token",
    "offline_session_while_server_up",
    "online_accept",
    "online_deny_wrong_password",
    "online_deny_then_old_password_still_cached",
    "online_session_failed_server_unreachable",
    "online_session_failed_server_error",
    "password_changed_then_verified_again",
    "login_while_daemon_down",
    "boot_refused_foreign_machine_key",
    "boot_refused_foreign_hmac_key",
    "cache_row_without_model_credential",
    "model_credential_without_cache_row",
];

pub struct Outcome {
    pub trace: Vec<String>,
    pub digest: String,
    pub violation: Option<Violation>,
    pub harness_error: Option<String>,
    pub stats: RunStats,
    pub steps_executed: usize,
}

pub struct World {
    cfg: Cfg,
    dir: PathBuf,
    server: SharedServer,
    machines: Vec<Machine>,
    model: Model,
    trace: Vec<String>,
    stats: RunStats,
    violation: Option<Violation>,
    harness_error: Option<String>,
    booted_since: Vec<bool>,
}

/// "VARIANT:m:t:p" of a serialised DbPasswordV1 (only looked at, never interpreted).
fn kdf_of(json: &str) -> String {
    match serde_json::from_str::<serde_json::Value>(json) {
        Ok(serde_json::Value::Object(o)) => match o.iter().next() {
            Some((variant, body)) => format!(
                "{variant}:m={}:t={}:p={}",
                body.get("m").map(|v| v.to_string()).unwrap_or_default(),
                body.get("t").map(|v| v.to_string()).unwrap_or_default(),
                body.get("p").map(|v| v.to_string()).unwrap_or_default()
            ),
            None => "?".into(),
        },
        _ => "?".into(),
    }
}

fn net_mode(s: &str) -> Option<NetMode> {
    match s {
        "up" => Some(NetMode::Up),
        "unreachable" => Some(NetMode::Unreachable),
        "http500" => Some(NetMode::Http500),
        "unauthorized" => Some(NetMode::Unauthorized),
        _ => None,
    }
}

fn net_name(m: NetMode) -> &'static str {
    match m {
        NetMode::Up => "up",
        NetMode::Unreachable => "unreachable",
        NetMode::Http500 => "http500",
        NetMode::Unauthorized => "unauthorized",
    }
}

#[derive(Clone, Copy, PartialEq, Eq, Debug)]
enum LoginResult {
    Accept,
    Deny,
    Unknown,
    Error,
    Down,
}

impl LoginResult {
    fn name(&self) -> &'static str {
        match self {
            LoginResult::Accept => "accept",
            LoginResult::Deny => "deny",
            LoginResult::Unknown => "unknown-user",
            LoginResult::Error => "error",
            LoginResult::Down => "daemon-down",
        }
    }
}

impl World {
    pub fn new(script: &Script, dir: PathBuf) -> Result<Self, String> {
        let cfg = script.cfg.clone();
        if cfg.machines == 0 || cfg.machines > 8 || cfg.users == 0 || cfg.users > 8 {
            return Err("cfg out of range".into());
        }
        if cfg.initial_passwords.len() != cfg.users || cfg.initial_passwords.iter().any(|p| p.is_empty()) {
            return Err("cfg.initial_passwords must give one non-empty password per user".into());
        }
        let _ = std::fs::remove_dir_all(&dir);
        std::fs::create_dir_all(&dir).map_err(|e| format!("cannot create {}: {e}", dir.display()))?;
        let mut server = SimServer::new();
        let common = SimGroup {
            name: "allowed".into(),
            spn: "allowed@sim.example".into(),
            uuid: uuid::Uuid::from_u128(0xC44_0000_0000_F000),
            gidnumber: 29000,
        };
        for u in 0..cfg.users {
            let name = user_name(u);
            server.users.insert(
                name.clone(),
                SimUser {
                    name: name.clone(),
                    spn: format!("{name}@sim.example"),
                    uuid: uuid::Uuid::from_u128(0xC44_0000_0000_0000 + u as u128),
                    gidnumber: 20000 + u as u32,
                    displayname: format!("User {u}"),
                    password: cfg.initial_passwords[u].clone(),
                    groups: vec![
                        SimGroup {
                            name: name.clone(),
                            spn: format!("{name}@sim.example"),
                            uuid: uuid::Uuid::from_u128(0xC44_0000_0000_0000 + u as u128),
                            gidnumber: 20000 + u as u32,
                        },
                        common.clone(),
                    ],
                },
            );
        }
        // pins: derived from the run seed with the simulator's PRNG (not from the entropy seam)
        let mut pr = Prng::new(script.seed, 0x9111);
        let machines = (0..cfg.machines)
            .map(|m| {
                let mut pin = [0u8; 32];
                pr.fill(&mut pin);
                pin[0] = m as u8; // distinct by construction
                Machine {
                    db_path: dir.join(format!("m{m}.cache.db")),
                    pin,
                    running: None,
                }
            })
            .collect();
        let model = Model::new(cfg.machines, &cfg.initial_passwords);
        Ok(World {
            booted_since: vec![false; cfg.machines],
            cfg,
            dir,
            server: Arc::new(Mutex::new(server)),
            machines,
            model,
            trace: Vec::new(),
            stats: RunStats::default(),
            violation: None,
            harness_error: None,
        })
    }

    fn fault(&mut self, k: &'static str) {
        *self.stats.faults.entry(k).or_insert(0) += 1;
    }

    fn probe(&mut self, k: &'static str) {
        *self.stats.probes.entry(k).or_insert(0) += 1;
    }

    fn srv(&self) -> std::sync::MutexGuard<'_, SimServer> {
        match self.server.lock() {
            Ok(g) => g,
            Err(p) => p.into_inner(),
        }
    }

    fn valid(&self, m: usize) -> bool {
        m < self.cfg.machines
    }

    // ---------------------------------------------------------------------------------------
    // Daemon start. MIRRORS unix_integration/resolver_common/src/cli/resolver.rs (the part of
    // `main` between "let db = match Db::new" and "Resolver::new"): migrate in its own
    // transaction; then ONE transaction that fetches-or-creates the sealed machine key, loads it
    // with the auth value, builds the KanidmProvider (which fetches-or-creates and loads its
    // HMAC key) and commits; any failure abandons the transaction and the daemon exits.
    // The auth value is the machine's 32 pin bytes used directly (the daemon derives it from
    // the pin file with argon2id; that derivation is not run).
    // ---------------------------------------------------------------------------------------
    fn boot_real(&mut self, m: usize) -> Result<(), &'static str> {
        self.machines[m].running = None; // stop a running daemon first (closes its DB)
        let path = self.machines[m].db_path.to_string_lossy().to_string();
        let db = Db::new(&path).map_err(|_| "db-open")?;
        {
            let mut dbtxn = block_on(db.write());
            dbtxn.migrate().and_then(|_| dbtxn.commit()).map_err(|_| "db-migrate")?;
        }
        let auth_value = AuthValue::from(self.machines[m].pin);
        let mut hsm: BoxedDynTpm = BoxedDynTpm::new(SoftTpm::default());
        let mut db_txn = block_on(db.write());
        let loadable_machine_key = match db_txn.get_hsm_root_storage_key() {
            Ok(Some(lmk)) => lmk,
            Ok(None) => {
                let lmk = hsm.root_storage_key_create(&auth_value).map_err(|_| "machine-key-create")?;
                db_txn.insert_hsm_root_storage_key(&lmk).map_err(|_| "machine-key-persist")?;
                lmk
            }
            Err(_) => return Err("machine-key-access"),
        };
        let machine_key = hsm
            .root_storage_key_load(&auth_value, &loadable_machine_key)
            .map_err(|_| "machine-key-load")?;
        let kconfig = KanidmConfig {
            conn_timeout: 1,
            request_timeout: 1,
            pam_allowed_login_groups: vec!["allowed".to_string()],
            map_group: Vec::new(),
            service_account_token: if self.cfg.service_token {
                Some("sim-service-token".to_string())
            } else {
                None
            },
        };
        let client = KanidmClient::new_sim(self.server.clone());
        let idprovider = block_on(KanidmProvider::new(
            client,
            &kconfig,
            SystemTime::now(),
            &mut (&mut db_txn).into(),
            &mut hsm,
            &machine_key,
        ))
        .map_err(|_| "provider-new")?;
        drop(machine_key);
        db_txn.commit().map_err(|_| "db-commit")?;
        let system_provider = SystemProvider::new().map_err(|_| "system-provider")?;
        let clients: Vec<Arc<dyn IdProvider + Send + Sync>> = vec![Arc::new(idprovider)];
        let (resolver, refresh_rx) = block_on(Resolver::new(
            db,
            Arc::new(system_provider),
            clients,
            hsm,
            self.cfg.cache_timeout,
            DEFAULT_SHELL.to_string(),
            DEFAULT_HOME_PREFIX.into(),
            DEFAULT_HOME_ATTR,
            DEFAULT_HOME_ALIAS,
            DEFAULT_UID_ATTR_MAP,
            DEFAULT_GID_ATTR_MAP,
        ))
        .map_err(|_| "resolver-new")?;
        self.machines[m].running = Some(Running { resolver, refresh_rx });
        Ok(())
    }

    /// Looks at the cache row of (m, u) through a second connection, for the trace and for the
    /// model-divergence probes. Returns (row exists, cached credential JSON if any, expiry).
    fn peek_row(&self, m: usize, u: usize) -> (bool, Option<String>, u64) {
        let p = &self.machines[m].db_path;
        if !p.exists() {
            return (false, None, 0);
        }
        let Ok(db) = Db::new(&p.to_string_lossy()) else {
            return (false, None, 0);
        };
        let mut tx = block_on(db.write());
        match tx.get_account(&Id::Name(user_name(u))) {
            Ok(Some((tok, ex))) => (
                true,
                tok.extra_keys.get(PWV1_KEY).map(|v| v.to_string()),
                ex,
            ),
            _ => (false, None, 0),
        }
    }

    fn violate(&mut self, step: usize, oracle: &str, signature: String, summary: String) {
        if self.violation.is_none() {
            self.violation = Some(Violation {
                oracle: oracle.to_string(),
                signature,
                step,
                summary,
            });
        }
    }

    fn context(&mut self, c: String) {
        if !self.stats.contexts.contains(&c) {
            self.stats.contexts.push(c);
        }
    }

    fn do_boot(&mut self, step: usize, m: usize) -> String {
        if self.machines[m].running.is_some() {
            self.fault("daemon_restart");
        }
        let expect = self.model.boot(m);
        let real = self.boot_real(m);
        if real.is_ok() {
            self.stats.daemon_starts += 1;
        }
        self.booted_since[m] = true;
        let out = match (&expect, &real) {
            (BootExpect::Ok, Ok(())) => "started".to_string(),
            (BootExpect::FailMachineKey, Err(stage)) => {
                self.probe("boot_refused_foreign_machine_key");
                format!("refused({stage}): machine key sealed under another machine's pin")
            }
            (BootExpect::FailHmacKey, Err(stage)) => {
                self.probe("boot_refused_foreign_hmac_key");
                format!("refused({stage}): hmac key sealed under another machine key")
            }
            (BootExpect::Ok, Err(stage)) => {
                self.harness_error = Some(format!(
                    "step {step}: daemon start of machine {m} failed at {stage} although every stored key belongs to this machine"
                ));
                format!("FAILED({stage})")
            }
            (exp, Ok(())) => {
                let stage = if *exp == BootExpect::FailMachineKey { "machine-key" } else { "hmac-key" };
                self.violate(
                    step,
                    "foreign-key-usable",
                    format!("stage={stage}"),
                    format!("machine {m} started and loaded a sealed {stage} that was created under another machine's parent key"),
                );
                "started-with-foreign-key".to_string()
            }
        };
        if real.is_err() {
            self.model.shutdown(m);
        }
        out
    }

    fn do_login(&mut self, step: usize, m: usize, u: usize, pw: &str) -> String {
        self.stats.logins += 1;
        let name = user_name(u);
        let net = self.srv().mode;
        let j = self.model.judge(m, u, pw);
        let log_from = self.srv().log.len();
        let token_expired_before = {
            let (exists, _, ex) = self.peek_row(m, u);
            exists && clock::now_s() >= ex
        };
        let restarted = self.booted_since[m];

        let (result, session) = match self.machines[m].running.as_ref() {
            None => (LoginResult::Down, "none"),
            Some(run) => {
                let (_shutdown_tx, shutdown_rx) = broadcast::channel(1);
                let pam_info = PamServiceInfo {
                    service: "c44-sim".to_string(),
                    tty: Some("/dev/null".to_string()),
                    rhost: None,
                };
                let now = time::OffsetDateTime::from_unix_timestamp(clock::now_s() as i64)
                    .unwrap_or(time::OffsetDateTime::UNIX_EPOCH);
                match block_on(run.resolver.pam_account_authenticate_init(&name, &pam_info, now, shutdown_rx)) {
                    Err(()) => (LoginResult::Error, "init-error"),
                    Ok((mut sess, resp)) => {
                        let kind = match &sess {
                            AuthSession::Online { .. } => "online",
                            AuthSession::Offline { .. } => "offline",
                            AuthSession::System { .. } => "system",
                            AuthSession::Success => "success",
                            AuthSession::Denied => "denied",
                        };
                        match resp {
                            PamAuthResponse::Password => {
                                let req = PamAuthRequest::Password { cred: pw.to_string() };
                                match block_on(run.resolver.pam_account_authenticate_step(&mut sess, req)) {
                                    Ok(PamAuthResponse::Success) => (LoginResult::Accept, kind),
                                    Ok(PamAuthResponse::Denied) => (LoginResult::Deny, kind),
                                    Ok(PamAuthResponse::Unknown) => (LoginResult::Unknown, kind),
                                    Ok(_) => (LoginResult::Error, kind),
                                    Err(()) => (LoginResult::Error, kind),
                                }
                            }
                            PamAuthResponse::Unknown => (LoginResult::Unknown, kind),
                            PamAuthResponse::Denied => (LoginResult::Deny, kind),
                            PamAuthResponse::Success => (LoginResult::Accept, kind),
                            _ => (LoginResult::Error, kind),
                        }
                    }
                }
            }
        };

        // what the identity server saw during this login
        let (calls, verified_now, verify_refused): (Vec<String>, bool, bool) = {
            let s = self.srv();
            let slice = &s.log[log_from..];
            let v = slice.iter().any(|c| {
                c.endpoint == "account_unix_cred_verify"
                    && c.answer == Answer::VerifiedOk
                    && c.id == name
                    && c.cred.as_deref() == Some(pw)
            });
            let r = slice
                .iter()
                .any(|c| c.endpoint == "account_unix_cred_verify" && c.answer == Answer::VerifiedNo);
            (
                slice.iter().map(|c| format!("{}:{:?}", c.endpoint, c.answer)).collect(),
                v,
                r,
            )
        };
        self.count_calls(log_from);

        let accept = result == LoginResult::Accept;
        let offline_path = session == "offline";
        if offline_path {
            self.stats.offline_decisions += 1;
        }
        if session == "online" || offline_path {
            // one argon2id evaluation per cached-credential update / check
            if verified_now || offline_path {
                self.stats.argon2_hashes += 1;
            }
        }

        // ------------------------------- ORACLE ---------------------------------------------
        // (1) An accept that the identity server did not itself just grant is an offline accept.
        //     It is allowed only if attempt == last password verified online for this user on
        //     this machine AND that cached credential is sealed under the key this machine holds.
        if accept && !verified_now && !j.justified {
            self.violate(
                step,
                "offline-accept-unjustified",
                format!(
                    "attempt={}; cached={}; key={}",
                    j.attempt.name(),
                    j.cached.name(),
                    j.key.name()
                ),
                format!(
                    "machine {m} accepted password {:?} for {name} without the server verifying it (server {}, session {session}); last verified here: {}",
                    pw,
                    net_name(net),
                    match self.model.machines[m].cached[u].as_ref() {
                        None => "nothing".to_string(),
                        Some(c) => format!("{:?} sealed on machine {} (key {})", c.pw, c.origin, c.key_id),
                    }
                ),
            );
        }
        // (2) The offline path must accept the justified attempt (other direction of the iff).
        if offline_path && j.justified && !accept {
            self.violate(
                step,
                "offline-valid-denied",
                format!("outcome={}", result.name()),
                format!(
                    "machine {m} decided offline and did not accept {:?} for {name}, the last password verified online here, sealed under the key it holds (outcome {})",
                    pw,
                    result.name()
                ),
            );
        }

        // ------------------------------- model update ---------------------------------------
        let had_cached_other = matches!(j.cached, CachedRel::OtherPassword);
        // (PLANT is only ever non-zero inside the harness self test: a deliberately wrong model)
        let plant = super::selftest::PLANT.load(std::sync::atomic::Ordering::SeqCst);
        if verified_now && plant != 1 {
            if !self.model.machines[m].verified_history[u].is_empty()
                && !self.model.machines[m].verified_history[u].iter().any(|p| p == pw)
            {
                self.probe("password_changed_then_verified_again");
            }
            self.model.verified_online(m, u, pw);
        }
        if plant == 2 && verify_refused {
            self.model.verified_online(m, u, pw);
        }

        // ------------------------------- probes / contexts -----------------------------------
        match (result, session) {
            (LoginResult::Down, _) => self.probe("login_while_daemon_down"),
            (LoginResult::Accept, "offline") => {
                self.probe("offline_accept_last_verified_password");
                if restarted {
                    self.probe("offline_accept_after_restart");
                }
                if token_expired_before {
                    self.probe("offline_accept_with_expired_token");
                }
            }
            (LoginResult::Deny, "offline") => {
                match (j.attempt, j.cached, j.key) {
                    (_, CachedRel::SamePassword, KeyRel::Foreign) => self.probe("offline_deny_credential_sealed_on_other_machine"),
                    (_, CachedRel::SamePassword, KeyRel::RotatedHere) => self.probe("offline_deny_after_key_store_loss"),
                    (AttemptClass::Empty, _, _) => self.probe("offline_deny_empty_password"),
                    (AttemptClass::EarlierVerifiedHere, _, _) => self.probe("offline_deny_earlier_verified_password"),
                    (AttemptClass::CurrentServerNotVerifiedHere, _, _) => {
                        self.probe("offline_deny_current_server_password_not_verified_here")
                    }
                    _ => self.probe("offline_deny_never_valid_password"),
                }
            }
            (LoginResult::Accept, "online") => self.probe("online_accept"),
            (LoginResult::Deny, "online") => {
                self.probe("online_deny_wrong_password");
                if verify_refused && (had_cached_other || j.cached == CachedRel::SamePassword) {
                    self.probe("online_deny_then_old_password_still_cached");
                }
            }
            (LoginResult::Error, "online") => {
                if net == NetMode::Unreachable {
                    self.probe("online_session_failed_server_unreachable");
                } else {
                    self.probe("online_session_failed_server_error");
                }
            }
            (LoginResult::Error, "init-error") => self.probe("offline_refused_no_cached_credential"),
            (LoginResult::Unknown, _) => {
                if net != NetMode::Up {
                    self.probe("offline_unknown_user_no_token");
                }
            }
            _ => {}
        }
        if offline_path && net == NetMode::Up {
            self.probe("offline_session_while_server_up");
        }
        if offline_path || (net != NetMode::Up && result != LoginResult::Down) {
            self.context(format!(
                "net={} session={} attempt={} cached={} key={} expired={} -> {}",
                net_name(net),
                session,
                j.attempt.name(),
                j.cached.name(),
                j.key.name(),
                token_expired_before,
                result.name()
            ));
        }

        // cache row vs model (early warning only, not an oracle)
        let (row, row_cred, _) = self.peek_row(m, u);
        let model_has = self.model.machines[m].cached[u].is_some();
        if row_cred.is_some() && !model_has {
            self.probe("cache_row_without_model_credential");
        }
        if row_cred.is_none() && model_has {
            self.probe("model_credential_without_cache_row");
        }
        let kdf = row_cred.as_deref().map(kdf_of).unwrap_or_else(|| "-".to_string());
        if row_cred.is_some() {
            *self.stats.kdfs.entry(kdf.clone()).or_insert(0) += 1;
        }
        let cred_fp = row_cred
            .map(|c| {
                let mut f = Fnv::new();
                f.write(c.as_bytes());
                f.hex()
            })
            .unwrap_or_else(|| "-".to_string());

        format!(
            "session={session} result={} server={} verified_online_now={verified_now} attempt={} cached={} key={} justified={} calls=[{}] row={} cred_fp={} kdf={}",
            result.name(),
            net_name(net),
            j.attempt.name(),
            j.cached.name(),
            j.key.name(),
            j.justified,
            calls.join(","),
            row,
            cred_fp,
            kdf
        )
    }

    fn count_calls(&mut self, from: usize) {
        let answers: Vec<Answer> = self.srv().log[from..].iter().map(|c| c.answer.clone()).collect();
        for a in answers {
            self.stats.stub_calls += 1;
            match a {
                Answer::Transport => self.fault("transport_error_answered"),
                Answer::Http500 => self.fault("http500_answered"),
                Answer::Http401 => self.fault("http401_answered"),
                _ => {}
            }
        }
    }

    fn secondary(&self, m: usize) -> Option<Db> {
        let p = &self.machines[m].db_path;
        if !p.exists() {
            return None;
        }
        Db::new(&p.to_string_lossy()).ok()
    }

    fn do_copy_token(&mut self, u: usize, from: usize, to: usize) -> String {
        if from == to {
            return "same-machine".into();
        }
        let (Some(src), Some(dst)) = (self.secondary(from), self.secondary(to)) else {
            return "no-db".into();
        };
        let row = {
            let mut tx = block_on(src.write());
            tx.get_account(&Id::Name(user_name(u))).ok().flatten()
        };
        let Some((tok, ex)) = row else {
            return "no-row".into();
        };
        let mut tx = block_on(dst.write());
        let r = tok
            .groups
            .iter()
            .try_for_each(|g| tx.update_group(g, ex))
            .and_then(|_| tx.update_account(&tok, ex))
            .and_then(|_| tx.commit());
        if r.is_err() {
            self.harness_error = Some(format!("copy_token: writing the row into machine {to}'s cache failed"));
            return "write-failed".into();
        }
        self.model.copy_token(u, from, to);
        self.fault("token_moved_between_machines");
        format!("copied cached_credential={}", tok.extra_keys.contains_key(PWV1_KEY))
    }

    fn do_copy_hmac(&mut self, from: usize, to: usize) -> String {
        if from == to {
            return "same-machine".into();
        }
        let (Some(src), Some(dst)) = (self.secondary(from), self.secondary(to)) else {
            let _ = self.model.copy_hmac(from, to); // model agrees: no-op without both DBs
            return "no-db".into();
        };
        let blob: Option<LoadableHmacS256Key> = {
            let mut tx = block_on(src.write());
            let mut ks: KeyStoreTxn = (&mut tx).into();
            ks.get_tagged_hsm_key(HMAC_KEY_TAG).ok().flatten()
        };
        let model_applied = self.model.copy_hmac(from, to);
        match blob {
            None => {
                if model_applied {
                    self.harness_error = Some(format!("copy_hmac_key: machine {from} has no stored hmac key although the model says it has"));
                }
                "no-key".into()
            }
            Some(b) => {
                let mut tx = block_on(dst.write());
                let r = {
                    let mut ks: KeyStoreTxn = (&mut tx).into();
                    ks.insert_tagged_hsm_key(HMAC_KEY_TAG, &b)
                };
                if r.and_then(|_| tx.commit()).is_err() || !model_applied {
                    self.harness_error = Some("copy_hmac_key: write failed or model disagrees".to_string());
                    return "write-failed".into();
                }
                self.fault("hmac_key_blob_moved");
                "copied".into()
            }
        }
    }

    fn do_copy_db(&mut self, from: usize, to: usize) -> String {
        if from == to {
            return "same-machine".into();
        }
        let src_path = self.machines[from].db_path.clone();
        let applied = self.model.copy_db(from, to);
        if !src_path.exists() {
            if applied {
                self.harness_error = Some("copy_db: model says source DB exists, file does not".into());
            }
            return "no-db".into();
        }
        if !applied {
            self.harness_error = Some("copy_db: source DB exists, model says it does not".into());
            return "model-disagrees".into();
        }
        // stop the target daemon, replace its file by a consistent snapshot of the source
        self.machines[to].running = None;
        let dst = self.machines[to].db_path.clone();
        for ext in ["", "-wal", "-shm"] {
            let _ = std::fs::remove_file(format!("{}{}", dst.to_string_lossy(), ext));
        }
        let r = rusqlite::Connection::open(&src_path)
            .and_then(|c| c.execute("VACUUM INTO ?1", [dst.to_string_lossy().to_string()]).map(|_| ()));
        if let Err(e) = r {
            self.harness_error = Some(format!("copy_db: VACUUM INTO failed: {e}"));
            return "copy-failed".into();
        }
        self.fault("db_file_moved");
        "copied; target daemon stopped".into()
    }

    fn do_lose(&mut self, m: usize, what: &str) -> String {
        let all = what == "all";
        let applied = self.model.lose_key_store(m, all);
        let Some(db) = self.secondary(m) else {
            if applied {
                self.harness_error = Some("lose_key_store: model says DB exists, file does not".into());
            }
            return "no-db".into();
        };
        let mut tx = block_on(db.write());
        let r = if all {
            tx.clear_hsm()
        } else {
            let mut ks: KeyStoreTxn = (&mut tx).into();
            ks.delete_tagged_hsm_key(HMAC_KEY_TAG)
        };
        if r.and_then(|_| tx.commit()).is_err() || !applied {
            self.harness_error = Some("lose_key_store: write failed or model disagrees".into());
            return "write-failed".into();
        }
        self.fault(if all { "key_store_lost_all" } else { "key_store_lost_hmac" });
        "lost".into()
    }

    fn step(&mut self, idx: usize, ev: &Event) -> String {
        clock::advance_s(1);
        match ev {
            Event::Boot { m } if self.valid(*m) => self.do_boot(idx, *m),
            Event::ServerSetPassword { u, pw } if *u < self.cfg.users && !pw.is_empty() => {
                let name = user_name(*u);
                if let Some(us) = self.srv().users.get_mut(&name) {
                    us.password = pw.clone();
                }
                self.model.server_set_password(*u, pw);
                self.fault("server_password_changed");
                "changed".into()
            }
            Event::Net { mode } => match net_mode(mode) {
                Some(nm) => {
                    self.srv().mode = nm;
                    self.model.net = nm;
                    "ok".into()
                }
                None => "ignored(bad mode)".into(),
            },
            Event::Login { m, u, pw } if self.valid(*m) && *u < self.cfg.users => {
                let r = self.do_login(idx, *m, *u, pw);
                self.booted_since[*m] = false;
                r
            }
            Event::Lookup { m, u } if self.valid(*m) && *u < self.cfg.users => {
                let from = self.srv().log.len();
                let r = match self.machines[*m].running.as_ref() {
                    None => "daemon-down".to_string(),
                    Some(run) => {
                        let now = SystemTime::UNIX_EPOCH + Duration::from_secs(clock::now_s());
                        match block_on(run.resolver.get_nssaccount_name_time(&user_name(*u), now)) {
                            Ok(Some(_)) => "found".to_string(),
                            Ok(None) => "not-found".to_string(),
                            Err(()) => "error".to_string(),
                        }
                    }
                };
                let calls: Vec<String> = self.srv().log[from..]
                    .iter()
                    .map(|c| format!("{}:{:?}", c.endpoint, c.answer))
                    .collect();
                self.count_calls(from);
                format!("{r} calls=[{}]", calls.join(","))
            }
            Event::Background { m } if self.valid(*m) => {
                let from = self.srv().log.len();
                let mut n = 0;
                if let Some(run) = self.machines[*m].running.as_mut() {
                    let mut ids = Vec::new();
                    while let Ok(id) = run.refresh_rx.try_recv() {
                        ids.push(id);
                    }
                    let now = SystemTime::UNIX_EPOCH + Duration::from_secs(clock::now_s());
                    for id in ids {
                        n += 1;
                        let _ = block_on(run.resolver.refresh_usertoken(&id, now));
                    }
                }
                self.count_calls(from);
                format!("refreshed={n}")
            }
            Event::Advance { secs } => {
                let s = (*secs).min(10 * 365 * 86400);
                clock::advance_s(s);
                if s > self.cfg.cache_timeout.clamp(60, 86400) {
                    self.fault("clock_jump_past_cache_timeout");
                }
                format!("now={}", clock::now_s())
            }
            Event::MarkOffline { m } if self.valid(*m) => match self.machines[*m].running.as_ref() {
                None => "daemon-down".into(),
                Some(run) => {
                    block_on(run.resolver.mark_offline());
                    self.fault("forced_offline");
                    "ok".into()
                }
            },
            Event::MarkNextCheck { m } if self.valid(*m) => match self.machines[*m].running.as_ref() {
                None => "daemon-down".into(),
                Some(run) => {
                    let now = SystemTime::UNIX_EPOCH + Duration::from_secs(clock::now_s());
                    block_on(run.resolver.mark_next_check_now(now));
                    "ok".into()
                }
            },
            Event::ClearCache { m } if self.valid(*m) => match self.machines[*m].running.as_ref() {
                None => "daemon-down".into(),
                Some(run) => match block_on(run.resolver.clear_cache()) {
                    Ok(()) => {
                        self.model.clear_cache(*m);
                        self.fault("cache_cleared");
                        "ok".into()
                    }
                    Err(()) => {
                        self.harness_error = Some("clear_cache failed".into());
                        "error".into()
                    }
                },
            },
            Event::Invalidate { m } if self.valid(*m) => match self.machines[*m].running.as_ref() {
                None => "daemon-down".into(),
                Some(run) => match block_on(run.resolver.invalidate()) {
                    Ok(()) => {
                        self.fault("cache_invalidated");
                        "ok".into()
                    }
                    Err(()) => "error".into(),
                },
            },
            Event::CopyToken { u, from, to } if self.valid(*from) && self.valid(*to) && *u < self.cfg.users => {
                self.do_copy_token(*u, *from, *to)
            }
            Event::CopyHmacKey { from, to } if self.valid(*from) && self.valid(*to) => self.do_copy_hmac(*from, *to),
            Event::CopyDb { from, to } if self.valid(*from) && self.valid(*to) => self.do_copy_db(*from, *to),
            Event::LoseKeyStore { m, what } if self.valid(*m) && (what == "hmac" || what == "all") => {
                self.do_lose(*m, what)
            }
            _ => "ignored(out of range)".into(),
        }
    }

    pub fn run(mut self, script: &Script) -> Outcome {
        let mut steps = 0;
        for (i, ev) in script.events.iter().enumerate() {
            let out = self.step(i, ev);
            steps = i + 1;
            let line = format!(
                "#{i} t={} {} => {out}",
                clock::now_s() - clock::EPOCH_S,
                serde_json::to_string(ev).unwrap_or_default()
            );
            self.trace.push(line);
            if self.violation.is_some() || self.harness_error.is_some() {
                break;
            }
        }
        // stop every daemon (closes the DBs) before the directory is removed
        for m in self.machines.iter_mut() {
            m.running = None;
        }
        let _ = std::fs::remove_dir_all(&self.dir);
        let mut d = Fnv::new();
        for l in self.trace.iter() {
            d.line(l);
        }
        if let Some(v) = self.violation.as_ref() {
            d.line(&format!("VIOLATION {} {} {}", v.oracle, v.signature, v.step));
        }
        Outcome {
            digest: d.hex(),
            trace: self.trace,
            violation: self.violation,
            harness_error: self.harness_error,
            stats: self.stats,
            steps_executed: steps,
        }
    }
}
