//! Entropy seam. The executable exports the libc symbol `getrandom`; std (HashMap keys),
//! getrandom 0.3/0.4 (dlsym; used by rand 0.9/0.10 in kanidm_lib_crypto and resolver.rs) and the
//! patched getrandom 0.2 (rand 0.8 in crypto-glue / kanidm-hsm-crypto) all resolve to it.
//! While a simulated run is active ON THIS THREAD the bytes come from the run's seeded stream;
//! otherwise the call goes to the kernel. Every run executes on a fresh OS thread so that the
//! thread-local generators of the rand crates are (re)seeded from the run's stream.
use super::prng::Prng;
use std::cell::{Cell, RefCell};

thread_local! {
    static STREAM: RefCell<Option<Prng>> = const { RefCell::new(None) };
    static DRAWS: Cell<u64> = const { Cell::new(0) };
    static BYTES: Cell<u64> = const { Cell::new(0) };
}

pub fn begin(seed: u64) {
    STREAM.with(|s| *s.borrow_mut() = Some(Prng::new(seed, 0xE17_0C44)));
    DRAWS.with(|d| d.set(0));
    BYTES.with(|d| d.set(0));
}

pub fn end() -> (u64, u64) {
    STREAM.with(|s| *s.borrow_mut() = None);
    (DRAWS.with(|d| d.get()), BYTES.with(|d| d.get()))
}

/// # Safety
/// libc ABI.
#[no_mangle]
pub unsafe extern "C" fn getrandom(buf: *mut libc::c_void, len: libc::size_t, flags: libc::c_uint) -> libc::ssize_t {
    let served = STREAM
        .try_with(|s| {
            if let Ok(mut g) = s.try_borrow_mut() {
                if let Some(r) = g.as_mut() {
                    if len > 0 && !buf.is_null() {
                        let sl = std::slice::from_raw_parts_mut(buf as *mut u8, len);
                        r.fill(sl);
                    }
                    return true;
                }
            }
            false
        })
        .unwrap_or(false);
    if served {
        let _ = DRAWS.try_with(|d| d.set(d.get() + 1));
        let _ = BYTES.try_with(|d| d.set(d.get() + len as u64));
        return len as libc::ssize_t;
    }
    libc::syscall(libc::SYS_getrandom, buf, len, flags) as libc::ssize_t
}
