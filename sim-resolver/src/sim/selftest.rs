//! Harness self test: source-text pins, effectiveness of the time / entropy seams, canonical
//! scenarios with known outcomes (positive and negative), and planted MODEL faults that prove the
//! two oracles fire and that a violating script replays.
use super::script::{Cfg, Event, Script};
use super::world::Outcome;
use super::{clock, entropy, run_script};
use serde_json::json;
use std::path::Path;
use std::sync::atomic::{AtomicU8, Ordering};

/// 0 = none; 1 = the model forgets online verifications; 2 = the model believes a refused
/// online attempt was a verification. Only ever set by the self test.
pub static PLANT: AtomicU8 = AtomicU8::new(0);

fn squash(s: &str) -> String {
    s.split_whitespace().collect::<Vec<_>>().join(" ")
}

fn must_contain_in_order(file: &str, needles: &[&str]) -> Result<(), String> {
    let path = format!("{}/{}", crate::KANIDM_SRC, file);
    let text = std::fs::read_to_string(&path).map_err(|e| format!("{path}: {e}"))?;
    let hay = squash(&text);
    let mut at = 0usize;
    for n in needles {
        let n2 = squash(n);
        match hay[at..].find(&n2) {
            Some(p) => at += p + n2.len(),
            None => return Err(format!("{file}: expected text not found (in this order): `{n}`")),
        }
    }
    Ok(())
}

/// Source-text pins: everything the harness mirrors or assumes about code it does not link.
pub fn pins() -> Result<(), String> {
    // constants the harness uses to move / look at rows (private in kanidm.rs)
    must_contain_in_order(
        "unix_integration/resolver_common/src/idprovider/kanidm.rs",
        &[
            "const KANIDM_HMAC_KEY: &str = \"kanidm-hmac-key-v2\";",
            "const KANIDM_PWV1_KEY: &str = \"kanidm-pw-v1\";",
        ],
    )?;
    // the daemon start-up sequence mirrored by World::boot_real
    must_contain_in_order(
        "unix_integration/resolver_common/src/cli/resolver.rs",
        &[
            "let db = match Db::new(cfg.cache_db_path.as_str())",
            "dbtxn.migrate().and_then(|_| dbtxn.commit())",
            "let mut db_txn = db.write().await;",
            "db_txn.get_hsm_root_storage_key()",
            "hsm.root_storage_key_create(&auth_value)",
            "db_txn.insert_hsm_root_storage_key(&loadable_machine_key)",
            "hsm.root_storage_key_load(&auth_value, &loadable_machine_key)",
            "KanidmProvider::new(",
            "&mut (&mut db_txn).into(),",
            "&mut hsm,",
            "&machine_key,",
            "drop(machine_key);",
            "db_txn.commit()",
            "Resolver::new(",
        ],
    )?;
    // the client API the stub stands in for
    let client = "libs/client/src/lib.rs";
    for sig in [
        "Http(reqwest::StatusCode, Option<OperationError>, String),",
        "Transport(reqwest::Error),",
        "pub async fn set_token(&self, new_token: String)",
        "pub async fn auth_anonymous(&self) -> Result<(), ClientError>",
        "pub async fn whoami(&self) -> Result<Option<Entry>, ClientError>",
        "pub async fn idm_group_unix_token_get(&self, id: &str) -> Result<UnixGroupToken, ClientError>",
        "pub async fn idm_account_unix_token_get(&self, id: &str) -> Result<UnixUserToken, ClientError>",
        "pub async fn idm_account_unix_cred_verify( &self, id: &str, cred: &str, ) -> Result<Option<UnixUserToken>, ClientError>",
    ] {
        must_contain_in_order(client, &[sig])?;
    }
    Ok(())
}

fn cfg(machines: usize, users: usize) -> Cfg {
    Cfg {
        machines,
        users,
        cache_timeout: 300,
        service_token: false,
        initial_passwords: (0..users).map(|u| format!("u{u}-secret-0")).collect(),
    }
}

fn login(m: usize, u: usize, pw: &str) -> Event {
    Event::Login { m, u, pw: pw.to_string() }
}

fn net(mode: &str) -> Event {
    Event::Net { mode: mode.to_string() }
}

struct Check<'a> {
    problems: &'a mut Vec<String>,
}

impl Check<'_> {
    fn expect_lines(&mut self, name: &str, o: &Outcome, wants: &[(usize, &str)]) {
        if let Some(e) = o.harness_error.as_ref() {
            self.problems.push(format!("{name}: harness error: {e}"));
            return;
        }
        for (idx, want) in wants {
            match o.trace.get(*idx) {
                Some(l) if l.contains(want) => {}
                Some(l) => self.problems.push(format!("{name}: step {idx}: expected `{want}` in `{l}`")),
                None => self.problems.push(format!("{name}: step {idx} was not executed")),
            }
        }
    }
}

pub fn run(out: &Path) -> i32 {
    let _ = std::fs::create_dir_all(out);
    let mut problems: Vec<String> = Vec::new();
    if let Err(e) = pins() {
        problems.push(format!("source-text pin: {e}"));
    }

    // ---- seams -------------------------------------------------------------------------------
    let seam = |seed: u64| {
        std::thread::spawn(move || {
            clock::begin();
            entropy::begin(seed);
            let t0 = std::time::SystemTime::now();
            let i0 = std::time::Instant::now();
            let i1 = std::time::Instant::now();
            clock::advance_s(3600);
            let t1 = std::time::SystemTime::now();
            // rand 0.10 (kanidm_lib_crypto, resolver.rs) and rand 0.8 (crypto-glue: SoftTpm keys)
            let a: u64 = rand::random();
            let mut hsm = kanidm_hsm_crypto::provider::BoxedDynTpm::new(kanidm_hsm_crypto::provider::SoftTpm::default());
            use kanidm_hsm_crypto::provider::Tpm;
            let av = kanidm_hsm_crypto::AuthValue::from([9u8; 32]);
            let blob = hsm
                .root_storage_key_create(&av)
                .ok()
                .and_then(|b| serde_json::to_string(&b).ok())
                .unwrap_or_default();
            let hm: std::collections::HashMap<u32, u32> = (0..8).map(|i| (i, i)).collect();
            let order: Vec<u32> = hm.keys().copied().collect();
            let (draws, _) = entropy::end();
            let _ = clock::end();
            (
                t0.duration_since(std::time::UNIX_EPOCH).map(|d| d.as_secs()).unwrap_or(0),
                t1.duration_since(t0).map(|d| d.as_secs()).unwrap_or(0),
                i1.duration_since(i0).as_secs(),
                a,
                blob,
                order,
                draws,
            )
        })
        .join()
    };
    let real0 = clock::real_monotonic_s();
    match (seam(7), seam(7), seam(8)) {
        (Ok(x), Ok(y), Ok(z)) => {
            if x.0 != clock::EPOCH_S || x.1 != 3600 {
                problems.push(format!("time seam (SystemTime) not effective: start {} delta {}", x.0, x.1));
            }
            if x.2 != 1 {
                problems.push(format!("time seam (Instant) not effective: delta {} s", x.2));
            }
            if x.3 != y.3 || x.4 != y.4 || x.5 != y.5 {
                problems.push("entropy seam: two runs with the same seed drew different bytes (rand 0.10 / crypto-glue rand 0.8 / std HashMap keys)".into());
            }
            if x.3 == z.3 || x.4 == z.4 {
                problems.push("entropy seam: different seeds gave identical draws".into());
            }
            if x.4.is_empty() || x.6 == 0 {
                problems.push("entropy seam: no draw was served from the run's stream".into());
            }
        }
        _ => problems.push("seam test thread panicked".into()),
    }
    if clock::real_monotonic_s() - real0 > 5.0 {
        problems.push("seam self test took more than 5 s of real time".into());
    }

    // ---- canonical scenarios ---------------------------------------------------------------------
    let mut c = Check { problems: &mut problems };
    let p0 = "u0-secret-0";
    // S1: verified online, server lost, cached login; wrong / empty refused
    let s1 = Script {
        seed: 11,
        cfg: cfg(1, 1),
        events: vec![
            Event::Boot { m: 0 },
            login(0, 0, p0),
            login(0, 0, "nope"),
            net("unreachable"),
            login(0, 0, p0),
            Event::MarkOffline { m: 0 },
            login(0, 0, p0),
            login(0, 0, "nope"),
            login(0, 0, ""),
            Event::Advance { secs: 100_000 },
            login(0, 0, p0),
        ],
    };
    let o1 = run_script(&s1, "st1");
    c.expect_lines(
        "S1",
        &o1,
        &[
            (0, "=> started"),
            (1, "session=online result=accept"),
            (1, "kdf=TPM_ARGON2ID:m=8192:t=2:p=1"),
            (2, "session=online result=deny"),
            (4, "session=online result=error"),
            (6, "session=offline result=accept"),
            (7, "session=offline result=deny"),
            (8, "session=offline result=deny"),
            (10, "session=offline result=accept"),
        ],
    );
    if o1.violation.is_some() {
        c.problems.push(format!("S1: unexpected violation {:?}", o1.violation));
    }
    // S2: rotation
    let s2 = Script {
        seed: 12,
        cfg: cfg(1, 2),
        events: vec![
            Event::Boot { m: 0 },
            login(0, 0, p0),
            Event::ServerSetPassword { u: 0, pw: "u0-secret-1".into() },
            login(0, 0, p0),
            login(0, 0, "u0-secret-1"),
            net("unreachable"),
            Event::Boot { m: 0 },
            login(0, 0, p0),
            login(0, 0, "u0-secret-1"),
            login(0, 1, "u1-secret-0"),
        ],
    };
    let o2 = run_script(&s2, "st2");
    c.expect_lines(
        "S2",
        &o2,
        &[
            (3, "session=online result=deny"),
            (4, "session=online result=accept"),
            (7, "session=offline result=deny"),
            (7, "attempt=earlier-verified-here"),
            (8, "session=offline result=accept"),
            (9, "result=unknown-user"),
        ],
    );
    if o2.violation.is_some() {
        c.problems.push(format!("S2: unexpected violation {:?}", o2.violation));
    }
    // S3: token and key blobs carried to another machine
    let s3 = Script {
        seed: 13,
        cfg: cfg(2, 1),
        events: vec![
            Event::Boot { m: 0 },
            Event::Boot { m: 1 },
            login(0, 0, p0),
            Event::CopyToken { u: 0, from: 0, to: 1 },
            net("unreachable"),
            Event::MarkOffline { m: 1 },
            login(1, 0, p0),
            Event::CopyHmacKey { from: 0, to: 1 },
            Event::Boot { m: 1 },
            login(1, 0, p0),
            Event::LoseKeyStore { m: 1, what: "hmac".into() },
            Event::Boot { m: 1 },
            login(1, 0, p0),
            Event::CopyDb { from: 0, to: 1 },
            Event::Boot { m: 1 },
            Event::LoseKeyStore { m: 0, what: "hmac".into() },
            Event::Boot { m: 0 },
            login(0, 0, p0),
        ],
    };
    let o3 = run_script(&s3, "st3");
    c.expect_lines(
        "S3",
        &o3,
        &[
            (3, "copied cached_credential=true"),
            (6, "session=offline result=deny"),
            (6, "key=another-machines-key"),
            (8, "refused(provider-new)"),
            (9, "result=daemon-down"),
            (11, "=> started"),
            (12, "session=offline result=deny"),
            (14, "refused(machine-key-load)"),
            (16, "=> started"),
            (17, "session=offline result=deny"),
            (17, "key=this-machines-lost-key"),
        ],
    );
    if o3.violation.is_some() {
        c.problems.push(format!("S3: unexpected violation {:?}", o3.violation));
    }

    // ---- planted model faults: both oracles must fire, and deterministically ---------------------
    PLANT.store(1, Ordering::SeqCst);
    let p1a = run_script(&s1, "plant1");
    let p1b = run_script(&s1, "plant1");
    PLANT.store(2, Ordering::SeqCst);
    let s4 = Script {
        seed: 14,
        cfg: cfg(1, 1),
        events: vec![
            Event::Boot { m: 0 },
            login(0, 0, p0),
            login(0, 0, "nope"),
            net("unreachable"),
            Event::MarkOffline { m: 0 },
            login(0, 0, "nope"),
        ],
    };
    let p2 = run_script(&s4, "plant2");
    PLANT.store(0, Ordering::SeqCst);
    match p1a.violation.as_ref() {
        Some(v) if v.oracle == "offline-accept-unjustified" && v.step == 6 => {}
        other => c.problems.push(format!("planted fault 1 (model forgets verifications): expected offline-accept-unjustified at step 6, got {other:?}")),
    }
    if p1a.digest != p1b.digest {
        c.problems.push("planted fault 1: two executions gave different trace digests".into());
    }
    match p2.violation.as_ref() {
        Some(v) if v.oracle == "offline-valid-denied" && v.step == 5 => {}
        other => c.problems.push(format!("planted fault 2 (model takes a refusal for a verification): expected offline-valid-denied at step 5, got {other:?}")),
    }
    // same script twice => same digest (incl. the bytes of the sealed credentials)
    let o1b = run_script(&s1, "st1b");
    if o1.digest != o1b.digest {
        c.problems.push("S1 executed twice gave different trace digests (entropy or time leaks into the run)".into());
    }

    let ok = problems.is_empty();
    let res = json!({"ok": ok, "problems": problems, "scenarios": 3, "planted_faults": 2,
        "s1_digest": o1.digest, "kdf_seen": o1.stats.kdfs});
    let _ = std::fs::write(out.join("selftest.json"), serde_json::to_vec(&res).unwrap_or_default());
    if ok {
        println!("selftest ok");
        0
    } else {
        for p in res["problems"].as_array().cloned().unwrap_or_default() {
            println!("selftest problem: {}", p.as_str().unwrap_or(""));
        }
        3
    }
}
