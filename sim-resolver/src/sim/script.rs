//! The explicit, minimisable description of one run: configuration knobs plus an event list.
use serde::{Deserialize, Serialize};

#[derive(Clone, Debug, Serialize, Deserialize, PartialEq)]
pub struct Cfg {
    /// Number of machines (each: own pin / machine key, own cache DB + key store, own resolver).
    pub machines: usize,
    /// Number of accounts on the identity server.
    pub users: usize,
    /// `cache_timeout` handed to `Resolver::new` (seconds; the resolver clamps it to 60..=86400).
    pub cache_timeout: u64,
    /// Whether the machines are configured with a service account token (decides whether the
    /// provider probes "am I online" with whoami or with an anonymous auth).
    pub service_token: bool,
    /// Initial server-side password of every user.
    pub initial_passwords: Vec<String>,
}

#[derive(Clone, Debug, Serialize, Deserialize, PartialEq)]
#[serde(tag = "ev", rename_all = "snake_case")]
pub enum Event {
    /// (Re)start the resolver daemon of machine `m`: keys are (re)loaded from the key store.
    Boot { m: usize },
    /// The account's password is changed on the identity server (no machine is told).
    ServerSetPassword { u: usize, pw: String },
    /// The identity server becomes: up | unreachable | http500 | unauthorized.
    Net { mode: String },
    /// A PAM password login of user `u` on machine `m` (init + one password step).
    Login { m: usize, u: usize, pw: String },
    /// An NSS lookup of the user by name (may refresh the cached token / notice the outage).
    Lookup { m: usize, u: usize },
    /// The daemon's background task drains the asynchronous token refresh queue.
    Background { m: usize },
    /// Wall clock moves forward.
    Advance { secs: u64 },
    /// Administrator forces the resolver offline / asks it to re-check on the next request.
    MarkOffline { m: usize },
    MarkNextCheck { m: usize },
    /// `kanidm-unix cache-clear` / `cache-invalidate`.
    ClearCache { m: usize },
    Invalidate { m: usize },
    /// The cached token row (with its cached credential) of user `u` is copied from machine
    /// `from` into the cache DB of machine `to`.
    CopyToken { u: usize, from: usize, to: usize },
    /// The sealed HMAC key blob of `from`'s key store is copied over `to`'s.
    CopyHmacKey { from: usize, to: usize },
    /// `to`'s daemon is stopped and its whole DB file (cache, sealed machine key, sealed HMAC
    /// key) is replaced by a copy of `from`'s. `to` keeps its own pin (the hardware binding).
    CopyDb { from: usize, to: usize },
    /// Key-store loss on machine `m`: `hmac` = only the provider's HMAC key row is lost,
    /// `all` = the documented reset (`clear_hsm`: cache and every key).
    LoseKeyStore { m: usize, what: String },
}

impl Event {
    pub fn kind(&self) -> &'static str {
        match self {
            Event::Boot { .. } => "boot",
            Event::ServerSetPassword { .. } => "server_set_password",
            Event::Net { .. } => "net",
            Event::Login { .. } => "login",
            Event::Lookup { .. } => "lookup",
            Event::Background { .. } => "background",
            Event::Advance { .. } => "advance",
            Event::MarkOffline { .. } => "mark_offline",
            Event::MarkNextCheck { .. } => "mark_next_check",
            Event::ClearCache { .. } => "clear_cache",
            Event::Invalidate { .. } => "invalidate",
            Event::CopyToken { .. } => "copy_token",
            Event::CopyHmacKey { .. } => "copy_hmac_key",
            Event::CopyDb { .. } => "copy_db",
            Event::LoseKeyStore { .. } => "lose_key_store",
        }
    }
}

#[derive(Clone, Debug, Serialize, Deserialize, PartialEq)]
pub struct Script {
    pub seed: u64,
    pub cfg: Cfg,
    pub events: Vec<Event>,
}

pub fn user_name(u: usize) -> String {
    format!("user{u}")
}
