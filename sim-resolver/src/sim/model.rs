//! The oracle's side: a small abstract model of what the property statement talks about.
//!
//!  * which password was most recently VERIFIED ONLINE for (machine, user): updated only when the
//!    simulated identity server itself answered a credential check for that user positively at
//!    the request of that machine;
//!  * under which key that cached credential was sealed, and which key the machine's resolver
//!    currently holds: keys are abstract identities. A machine key is sealed under a machine's
//!    pin (standing for the hardware binding), an HMAC key under a machine key; a sealed blob
//!    only loads under the parent it was created with.
//!
//! Nothing here looks at kanidm's data structures.
use kanidm_client::NetMode;

#[derive(Clone, Debug, PartialEq)]
pub struct MkBlob {
    pub id: u32,
    /// index of the machine whose pin sealed this blob
    pub sealed_by_pin_of: usize,
}

#[derive(Clone, Debug, PartialEq)]
pub struct HmacBlob {
    pub id: u32,
    pub parent_mk: u32,
}

#[derive(Clone, Debug, PartialEq)]
pub struct Cached {
    pub pw: String,
    /// HMAC key (abstract id) the resolver held when the server verified `pw`
    pub key_id: u32,
    /// machine on which the verification happened (a copied token keeps its origin)
    pub origin: usize,
}

#[derive(Clone, Debug)]
pub struct Running {
    pub mk: u32,
    pub key: u32,
}

#[derive(Clone, Debug)]
pub struct MModel {
    pub has_db: bool,
    pub stored_mk: Option<MkBlob>,
    pub stored_hmac: Option<HmacBlob>,
    pub running: Option<Running>,
    /// per user: the cached credential this machine's cache row stands for
    pub cached: Vec<Option<Cached>>,
    /// per user: every password ever verified online on this machine (classification only)
    pub verified_history: Vec<Vec<String>>,
}

#[derive(Clone, Debug, PartialEq)]
pub enum BootExpect {
    Ok,
    FailMachineKey,
    FailHmacKey,
}

pub struct Model {
    next_id: u32,
    pub machines: Vec<MModel>,
    pub server_pw: Vec<String>,
    pub server_hist: Vec<Vec<String>>,
    pub net: NetMode,
}

/// How the attempted password relates to what the model knows (for signatures and probes).
#[derive(Clone, Copy, Debug, PartialEq, Eq)]
pub enum AttemptClass {
    Empty,
    LastVerifiedHere,
    EarlierVerifiedHere,
    CurrentServerNotVerifiedHere,
    FormerServerNotVerifiedHere,
    NeverValid,
}

impl AttemptClass {
    pub fn name(&self) -> &'static str {
        match self {
            AttemptClass::Empty => "empty",
            AttemptClass::LastVerifiedHere => "last-verified-here",
            AttemptClass::EarlierVerifiedHere => "earlier-verified-here",
            AttemptClass::CurrentServerNotVerifiedHere => "current-server-password-not-verified-here",
            AttemptClass::FormerServerNotVerifiedHere => "former-server-password-not-verified-here",
            AttemptClass::NeverValid => "never-valid",
        }
    }
}

#[derive(Clone, Copy, Debug, PartialEq, Eq)]
pub enum CachedRel {
    None,
    OtherPassword,
    SamePassword,
}

impl CachedRel {
    pub fn name(&self) -> &'static str {
        match self {
            CachedRel::None => "none",
            CachedRel::OtherPassword => "other-password",
            CachedRel::SamePassword => "same-password",
        }
    }
}

#[derive(Clone, Copy, Debug, PartialEq, Eq)]
pub enum KeyRel {
    NotApplicable,
    Same,
    /// sealed on this machine, but the resolver now holds a different key (key store lost)
    RotatedHere,
    /// sealed on another machine
    Foreign,
}

impl KeyRel {
    pub fn name(&self) -> &'static str {
        match self {
            KeyRel::NotApplicable => "n/a",
            KeyRel::Same => "this-machines-current-key",
            KeyRel::RotatedHere => "this-machines-lost-key",
            KeyRel::Foreign => "another-machines-key",
        }
    }
}

pub struct Judgement {
    pub attempt: AttemptClass,
    pub cached: CachedRel,
    pub key: KeyRel,
    /// The property's right-hand side: attempt == last password verified online for the user on
    /// this machine AND that credential is sealed under the key this machine holds.
    pub justified: bool,
}

impl Model {
    pub fn new(machines: usize, initial_passwords: &[String]) -> Self {
        let users = initial_passwords.len();
        Model {
            next_id: 100,
            machines: (0..machines)
                .map(|_| MModel {
                    has_db: false,
                    stored_mk: None,
                    stored_hmac: None,
                    running: None,
                    cached: vec![None; users],
                    verified_history: vec![Vec::new(); users],
                })
                .collect(),
            server_pw: initial_passwords.to_vec(),
            server_hist: initial_passwords.iter().map(|p| vec![p.clone()]).collect(),
            net: NetMode::Up,
        }
    }

    fn fresh(&mut self) -> u32 {
        self.next_id += 1;
        self.next_id
    }

    pub fn server_set_password(&mut self, u: usize, pw: &str) {
        self.server_pw[u] = pw.to_string();
        self.server_hist[u].push(pw.to_string());
    }

    /// Daemon start on machine m: what must happen, and the resulting key state.
    pub fn boot(&mut self, m: usize) -> BootExpect {
        self.machines[m].running = None;
        self.machines[m].has_db = true;
        let (mk, created_mk) = match self.machines[m].stored_mk.clone() {
            None => (self.fresh(), true),
            Some(b) if b.sealed_by_pin_of == m => (b.id, false),
            Some(_) => return BootExpect::FailMachineKey,
        };
        let (key, created_key) = match self.machines[m].stored_hmac.clone() {
            None => (self.fresh(), true),
            Some(b) if b.parent_mk == mk => (b.id, false),
            // the whole start-up transaction is rolled back: a machine key created above is
            // not persisted either
            Some(_) => return BootExpect::FailHmacKey,
        };
        let mm = &mut self.machines[m];
        if created_mk {
            mm.stored_mk = Some(MkBlob {
                id: mk,
                sealed_by_pin_of: m,
            });
        }
        if created_key {
            mm.stored_hmac = Some(HmacBlob { id: key, parent_mk: mk });
        }
        mm.running = Some(Running { mk, key });
        BootExpect::Ok
    }

    pub fn shutdown(&mut self, m: usize) {
        self.machines[m].running = None;
    }

    /// The identity server verified `pw` for user u at the request of machine m.
    pub fn verified_online(&mut self, m: usize, u: usize, pw: &str) {
        let key = self.machines[m].running.as_ref().map(|r| r.key).unwrap_or(0);
        let mm = &mut self.machines[m];
        mm.cached[u] = Some(Cached {
            pw: pw.to_string(),
            key_id: key,
            origin: m,
        });
        if !mm.verified_history[u].iter().any(|p| p == pw) {
            mm.verified_history[u].push(pw.to_string());
        }
    }

    pub fn clear_cache(&mut self, m: usize) {
        for c in self.machines[m].cached.iter_mut() {
            *c = None;
        }
    }

    pub fn copy_token(&mut self, u: usize, from: usize, to: usize) {
        let c = self.machines[from].cached[u].clone();
        self.machines[to].cached[u] = c;
    }

    pub fn copy_hmac(&mut self, from: usize, to: usize) -> bool {
        if !self.machines[from].has_db || !self.machines[to].has_db {
            return false;
        }
        match self.machines[from].stored_hmac.clone() {
            Some(b) => {
                self.machines[to].stored_hmac = Some(b);
                true
            }
            None => false,
        }
    }

    pub fn copy_db(&mut self, from: usize, to: usize) -> bool {
        if !self.machines[from].has_db || from == to {
            return false;
        }
        let src = self.machines[from].clone();
        let t = &mut self.machines[to];
        t.running = None;
        t.has_db = true;
        t.stored_mk = src.stored_mk;
        t.stored_hmac = src.stored_hmac;
        t.cached = src.cached;
        true
    }

    pub fn lose_key_store(&mut self, m: usize, all: bool) -> bool {
        if !self.machines[m].has_db {
            return false;
        }
        let mm = &mut self.machines[m];
        mm.stored_hmac = None;
        if all {
            mm.stored_mk = None;
            for c in mm.cached.iter_mut() {
                *c = None;
            }
        }
        true
    }

    pub fn judge(&self, m: usize, u: usize, attempt: &str) -> Judgement {
        let mm = &self.machines[m];
        let cached = mm.cached[u].as_ref();
        let running_key = mm.running.as_ref().map(|r| r.key);
        let cached_rel = match cached {
            None => CachedRel::None,
            Some(c) if c.pw == attempt => CachedRel::SamePassword,
            Some(_) => CachedRel::OtherPassword,
        };
        let key_rel = match (cached, running_key) {
            (Some(c), Some(k)) if c.key_id == k => KeyRel::Same,
            (Some(c), _) if c.origin == m => KeyRel::RotatedHere,
            (Some(_), _) => KeyRel::Foreign,
            (None, _) => KeyRel::NotApplicable,
        };
        let class = if attempt.is_empty() {
            AttemptClass::Empty
        } else if cached.map(|c| c.origin == m && c.pw == attempt).unwrap_or(false) {
            AttemptClass::LastVerifiedHere
        } else if mm.verified_history[u].iter().any(|p| p == attempt) {
            AttemptClass::EarlierVerifiedHere
        } else if self.server_pw[u] == attempt {
            AttemptClass::CurrentServerNotVerifiedHere
        } else if self.server_hist[u].iter().any(|p| p == attempt) {
            AttemptClass::FormerServerNotVerifiedHere
        } else {
            AttemptClass::NeverValid
        };
        Judgement {
            attempt: class,
            cached: cached_rel,
            key: key_rel,
            justified: cached_rel == CachedRel::SamePassword && key_rel == KeyRel::Same && !attempt.is_empty(),
        }
    }
}
