//! The simulator's own PRNG (splitmix64 seeding + xoshiro256**). Never used in logging paths.

#[derive(Clone, Debug)]
pub struct Prng {
    s: [u64; 4],
}

pub fn splitmix64(x: &mut u64) -> u64 {
    *x = x.wrapping_add(0x9E37_79B9_7F4A_7C15);
    let mut z = *x;
    z = (z ^ (z >> 30)).wrapping_mul(0xBF58_476D_1CE4_E5B9);
    z = (z ^ (z >> 27)).wrapping_mul(0x94D0_49BB_1331_11EB);
    z ^ (z >> 31)
}

impl Prng {
    pub fn new(seed: u64, stream: u64) -> Self {
        let mut x = seed ^ stream.wrapping_mul(0xD6E8_FEB8_6659_FD93);
        let mut s = [0u64; 4];
        for v in s.iter_mut() {
            *v = splitmix64(&mut x);
        }
        if s == [0; 4] {
            s[0] = 1;
        }
        Prng { s }
    }

    pub fn next_u64(&mut self) -> u64 {
        let r = self.s[1].wrapping_mul(5).rotate_left(7).wrapping_mul(9);
        let t = self.s[1] << 17;
        self.s[2] ^= self.s[0];
        self.s[3] ^= self.s[1];
        self.s[1] ^= self.s[2];
        self.s[0] ^= self.s[3];
        self.s[2] ^= t;
        self.s[3] = self.s[3].rotate_left(45);
        r
    }

    /// Uniform in 0..n (n > 0).
    pub fn below(&mut self, n: u64) -> u64 {
        debug_assert!(n > 0);
        // multiply-shift; bias is irrelevant at these sizes
        ((self.next_u64() as u128 * n as u128) >> 64) as u64
    }

    pub fn range(&mut self, lo: u64, hi_incl: u64) -> u64 {
        lo + self.below(hi_incl - lo + 1)
    }

    pub fn pct(&mut self, p: u64) -> bool {
        self.below(100) < p
    }

    pub fn fill(&mut self, buf: &mut [u8]) {
        for chunk in buf.chunks_mut(8) {
            let v = self.next_u64().to_le_bytes();
            chunk.copy_from_slice(&v[..chunk.len()]);
        }
    }

    /// Index chosen with the given integer weights (at least one > 0).
    pub fn weighted(&mut self, w: &[u64]) -> usize {
        let total: u64 = w.iter().sum();
        let mut x = self.below(total.max(1));
        for (i, wi) in w.iter().enumerate() {
            if x < *wi {
                return i;
            }
            x -= *wi;
        }
        w.len() - 1
    }
}

/// 64-bit FNV-1a, used for trace digests and script identity.
#[derive(Clone, Copy)]
pub struct Fnv(pub u64);

impl Fnv {
    pub fn new() -> Self {
        Fnv(0xcbf2_9ce4_8422_2325)
    }
    pub fn write(&mut self, b: &[u8]) {
        for x in b {
            self.0 ^= *x as u64;
            self.0 = self.0.wrapping_mul(0x0000_0100_0000_01B3);
        }
    }
    pub fn line(&mut self, s: &str) {
        self.write(s.as_bytes());
        self.write(b"\n");
    }
    pub fn hex(&self) -> String {
        format!("{:016x}", self.0)
    }
}
