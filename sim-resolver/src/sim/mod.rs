//! C44 "Offline login accepts only the last password verified online": simulation entry points.
//!
//!   c44sim batch --seed S --n N --workers W --worker w --out DIR [--wall-cap SECS] [--long]
//!   c44sim replay FILE --out DIR          re-execute a recorded script, print the trace
//!   c44sim minimise FILE OUTFILE          delta-debug the events of a violating script
//!   c44sim selftest --out DIR             seams, source-text pins, canonical scenarios
//!   c44sim show SEED                      print the generated script of one run seed
pub mod clock;
pub mod entropy;
pub mod gen;
pub mod minimise;
pub mod model;
pub mod prng;
pub mod script;
pub mod selftest;
pub mod world;

use prng::Fnv;
use script::Script;
use serde_json::json;
use std::collections::BTreeMap;
use std::io::Write;
use std::path::PathBuf;
use world::{Outcome, World};

pub fn scratch_root() -> PathBuf {
    let base = std::env::var("C44_SCRATCH").unwrap_or_else(|_| format!("/dev/shm/c44-direct-{}", std::process::id()));
    PathBuf::from(base)
}

/// Executes one script in a FRESH thread (so that the thread-local generators of the rand
/// crates are seeded from this run's entropy stream), on simulated time and seeded entropy.
pub fn run_script(script: &Script, tag: &str) -> Outcome {
    let dir = scratch_root().join(format!("run-{}-{tag}", std::process::id()));
    let s = script.clone();
    let d2 = dir.clone();
    let h = std::thread::Builder::new()
        .name("c44-run".into())
        .stack_size(8 << 20)
        .spawn(move || {
            clock::begin();
            entropy::begin(s.seed);
            let r = std::panic::catch_unwind(std::panic::AssertUnwindSafe(|| match World::new(&s, d2.clone()) {
                Ok(w) => Ok(w.run(&s)),
                Err(e) => Err(e),
            }));
            let (draws, _bytes) = entropy::end();
            let cs = clock::end();
            (r, draws, cs)
        });
    let joined = match h {
        Ok(h) => h.join(),
        Err(e) => {
            return failed_outcome(format!("cannot spawn run thread: {e}"));
        }
    };
    let _ = std::fs::remove_dir_all(&dir);
    match joined {
        Ok((Ok(Ok(mut o)), draws, cs)) => {
            o.stats.entropy_draws = draws;
            o.stats.clock_obs = cs.obs_real + cs.obs_mono;
            o.stats.sim_time_s = cs.elapsed_s;
            o
        }
        Ok((Ok(Err(e)), _, _)) => failed_outcome(format!("invalid script: {e}")),
        Ok((Err(p), _, _)) => failed_outcome(format!("panic during run: {}", panic_msg(&p))),
        Err(p) => failed_outcome(format!("run thread died: {}", panic_msg(&p))),
    }
}

fn panic_msg(p: &Box<dyn std::any::Any + Send>) -> String {
    if let Some(s) = p.downcast_ref::<&str>() {
        s.to_string()
    } else if let Some(s) = p.downcast_ref::<String>() {
        s.clone()
    } else {
        "?".into()
    }
}

fn failed_outcome(msg: String) -> Outcome {
    Outcome {
        trace: Vec::new(),
        digest: "0".into(),
        violation: None,
        harness_error: Some(msg),
        stats: Default::default(),
        steps_executed: 0,
    }
}

/// Once per process, before anything that counts: execute a fixed two-machine script so that
/// every process-global lazy initialisation in the linked libraries (global hasher seeds,
/// SQLite's one-time setup, ...) happens outside the measured runs. Without this the first run
/// of every process would see two extra entropy draws.
pub fn warm_up() {
    use script::{Cfg, Event};
    let s = Script {
        seed: 0xC44,
        cfg: Cfg {
            machines: 2,
            users: 1,
            cache_timeout: 300,
            service_token: true,
            initial_passwords: vec!["warm-up".into()],
        },
        events: vec![
            Event::Boot { m: 0 },
            Event::Boot { m: 1 },
            Event::Login { m: 0, u: 0, pw: "warm-up".into() },
            Event::Lookup { m: 1, u: 0 },
            Event::CopyToken { u: 0, from: 0, to: 1 },
            Event::CopyDb { from: 0, to: 1 },
            Event::Net { mode: "unreachable".into() },
            Event::Boot { m: 0 },
            Event::Login { m: 0, u: 0, pw: "warm-up".into() },
        ],
    };
    let _ = run_script(&s, "warm");
}

pub fn script_digest(s: &Script) -> String {
    let mut f = Fnv::new();
    f.line(&serde_json::to_string(&s.cfg).unwrap_or_default());
    for e in s.events.iter() {
        f.line(&serde_json::to_string(e).unwrap_or_default());
    }
    f.hex()
}

struct Args {
    pos: Vec<String>,
    opt: BTreeMap<String, String>,
    flags: Vec<String>,
}

fn parse_args() -> Args {
    let mut pos = Vec::new();
    let mut opt = BTreeMap::new();
    let mut flags = Vec::new();
    let mut it = std::env::args().skip(1).peekable();
    while let Some(a) = it.next() {
        if let Some(k) = a.strip_prefix("--") {
            if matches!(k, "long" | "quiet") {
                flags.push(k.to_string());
            } else if let Some(v) = it.next() {
                opt.insert(k.to_string(), v);
            }
        } else {
            pos.push(a);
        }
    }
    Args { pos, opt, flags }
}

fn add(dst: &mut BTreeMap<String, u64>, src: &BTreeMap<&'static str, u64>) {
    for (k, v) in src {
        *dst.entry((*k).to_string()).or_insert(0) += v;
    }
}

fn batch(a: &Args) -> i32 {
    let seed: u64 = a.opt.get("seed").and_then(|s| s.parse().ok()).unwrap_or(1);
    let n: u64 = a.opt.get("n").and_then(|s| s.parse().ok()).unwrap_or(100);
    let workers: u64 = a.opt.get("workers").and_then(|s| s.parse().ok()).unwrap_or(1).max(1);
    let worker: u64 = a.opt.get("worker").and_then(|s| s.parse().ok()).unwrap_or(0);
    let out = PathBuf::from(a.opt.get("out").cloned().unwrap_or_else(|| ".".into()));
    let wall_cap: Option<f64> = a.opt.get("wall-cap").and_then(|s| s.parse().ok());
    let long = a.flags.iter().any(|f| f == "long");
    if let Err(e) = selftest::pins() {
        println!("HARNESS-ERROR source-text pin failed: {e}");
        return 3;
    }
    let _ = std::fs::create_dir_all(&out);
    let mut lines = match std::fs::File::create(out.join(format!("w{worker}.jsonl"))) {
        Ok(f) => std::io::BufWriter::new(f),
        Err(e) => {
            println!("HARNESS-ERROR cannot write output: {e}");
            return 3;
        }
    };
    let t0 = clock::real_monotonic_s();
    let mut faults = BTreeMap::new();
    let mut probes = BTreeMap::new();
    let mut kdfs: BTreeMap<String, u64> = BTreeMap::new();
    let mut violations = Vec::new();
    let mut violation_count = 0u64;
    let mut harness_errors = Vec::new();
    let mut samples = Vec::new();
    let (mut runs, mut nontrivial, mut logins, mut offline, mut argon, mut calls, mut simtime, mut events, mut starts, mut draws) =
        (0u64, 0u64, 0u64, 0u64, 0u64, 0u64, 0u64, 0u64, 0u64, 0u64);
    let mut stopped_early_at: Option<u64> = None;
    let mut i = worker;
    while i < n {
        if let Some(cap) = wall_cap {
            if clock::real_monotonic_s() - t0 > cap {
                stopped_early_at = Some(i);
                break;
            }
        }
        let run_seed = (seed << 32).wrapping_add(i);
        let script = gen::generate(run_seed, long);
        let o = run_script(&script, &format!("w{worker}"));
        runs += 1;
        events += o.steps_executed as u64;
        let nt = o.stats.offline_decisions > 0;
        if nt {
            nontrivial += 1;
        }
        logins += o.stats.logins;
        offline += o.stats.offline_decisions;
        argon += o.stats.argon2_hashes + o.stats.daemon_starts;
        calls += o.stats.stub_calls;
        simtime += o.stats.sim_time_s;
        starts += o.stats.daemon_starts;
        draws += o.stats.entropy_draws;
        add(&mut faults, &o.stats.faults);
        add(&mut probes, &o.stats.probes);
        for (k, v) in o.stats.kdfs.iter() {
            *kdfs.entry(k.clone()).or_insert(0) += v;
        }
        let mut shape = Fnv::new();
        for c in o.stats.contexts.iter() {
            shape.line(c);
        }
        let _ = writeln!(
            lines,
            "{}",
            json!({"i": i, "seed": run_seed, "digest": o.digest, "script": script_digest(&script),
                   "shape": shape.hex(), "nontrivial": nt, "contexts": o.stats.contexts,
                   "events": script.events.len()})
        );
        if let Some(e) = o.harness_error.as_ref() {
            harness_errors.push(json!({"i": i, "seed": run_seed, "error": e, "events": script.events, "cfg": script.cfg}));
        }
        if let Some(v) = o.violation.as_ref() {
            violation_count += 1;
            if violations.len() < 8 {
                violations.push(json!({"i": i, "seed": run_seed, "oracle": v.oracle, "signature": v.signature,
                    "step": v.step, "summary": v.summary, "cfg": script.cfg, "events": script.events}));
            }
        }
        if samples.len() < 3 && nt {
            samples.push(json!({"i": i, "seed": run_seed, "cfg": script.cfg,
                "first_events": script.events.iter().take(8).collect::<Vec<_>>(), "events_total": script.events.len()}));
        }
        i += workers;
    }
    let wall = clock::real_monotonic_s() - t0;
    let summary = json!({
        "worker": worker, "workers": workers, "seed": seed, "planned": n, "long": long,
        "runs": runs, "nontrivial": nontrivial, "events": events, "logins": logins,
        "offline_decisions": offline, "argon2id_evaluations": argon, "stub_calls": calls,
        "sim_time_s": simtime, "daemon_starts": starts, "entropy_draws": draws,
        "faults": faults, "probes": probes, "kdfs": kdfs,
        "violations": violations, "violation_count": violation_count,
        "harness_errors": harness_errors, "samples": samples,
        "stopped_early_at": stopped_early_at, "wall_s": wall,
        "fault_kinds": world::FAULT_KINDS, "probe_kinds": world::PROBE_KINDS,
    });
    let _ = lines.flush();
    if std::fs::write(out.join(format!("w{worker}.json")), serde_json::to_vec(&summary).unwrap_or_default()).is_err() {
        println!("HARNESS-ERROR cannot write summary");
        return 3;
    }
    0
}

fn load_replay(path: &str) -> Result<(Script, serde_json::Value), String> {
    let text = std::fs::read_to_string(path).map_err(|e| format!("cannot read {path}: {e}"))?;
    let v: serde_json::Value = serde_json::from_str(&text).map_err(|e| format!("bad json: {e}"))?;
    let seed = v.get("seed").and_then(|s| s.as_u64()).ok_or("replay: no seed")?;
    let cfg = serde_json::from_value(v.get("cfg").cloned().ok_or("replay: no cfg")?).map_err(|e| format!("replay cfg: {e}"))?;
    let events = serde_json::from_value(v.get("events").cloned().ok_or("replay: no events")?).map_err(|e| format!("replay events: {e}"))?;
    Ok((Script { seed, cfg, events }, v))
}

fn replay(a: &Args) -> i32 {
    let Some(file) = a.pos.get(1) else {
        println!("HARNESS-ERROR usage: c44sim replay FILE --out DIR");
        return 3;
    };
    let out = PathBuf::from(a.opt.get("out").cloned().unwrap_or_else(|| ".".into()));
    let _ = std::fs::create_dir_all(&out);
    if let Err(e) = selftest::pins() {
        println!("HARNESS-ERROR source-text pin failed: {e}");
        return 3;
    }
    let (script, rec) = match load_replay(file) {
        Ok(x) => x,
        Err(e) => {
            println!("HARNESS-ERROR {e}");
            return 3;
        }
    };
    let o = run_script(&script, "replay");
    let quiet = a.flags.iter().any(|f| f == "quiet");
    if !quiet {
        println!("replay of {file}: seed {} cfg {}", script.seed, serde_json::to_string(&script.cfg).unwrap_or_default());
        for l in o.trace.iter() {
            println!("  {l}");
        }
    }
    if let Some(e) = o.harness_error.as_ref() {
        println!("HARNESS-ERROR during replay: {e}");
        return 3;
    }
    let rec_oracle = rec.get("oracle").and_then(|s| s.as_str()).unwrap_or("");
    let rec_sig = rec.get("signature").and_then(|s| s.as_str()).unwrap_or("");
    let res = match o.violation.as_ref() {
        Some(v) => {
            if !quiet {
                println!("VIOLATION REPRODUCED oracle={} signature=[{}] step={}", v.oracle, v.signature, v.step);
                println!("  {}", v.summary);
            }
            json!({"violation": true, "oracle": v.oracle, "signature": v.signature, "step": v.step, "summary": v.summary,
                   "same_as_recorded": v.oracle == rec_oracle && v.signature == rec_sig, "digest": o.digest})
        }
        None => {
            if !quiet {
                println!("no violation: the property held on this script");
            }
            json!({"violation": false, "digest": o.digest})
        }
    };
    let _ = std::fs::write(out.join("replay.json"), serde_json::to_vec(&res).unwrap_or_default());
    0
}

fn minimise_cmd(a: &Args) -> i32 {
    let (Some(file), Some(dest)) = (a.pos.get(1), a.pos.get(2)) else {
        println!("HARNESS-ERROR usage: c44sim minimise FILE OUTFILE");
        return 3;
    };
    let (script, mut rec) = match load_replay(file) {
        Ok(x) => x,
        Err(e) => {
            println!("HARNESS-ERROR {e}");
            return 3;
        }
    };
    let oracle = rec.get("oracle").and_then(|s| s.as_str()).unwrap_or("").to_string();
    let sig = rec.get("signature").and_then(|s| s.as_str()).unwrap_or("").to_string();
    match minimise::minimise(&script, &oracle, &sig) {
        Err(e) => {
            println!("HARNESS-ERROR minimise: {e}");
            3
        }
        Ok((small, v, tests)) => {
            let before = script.events.len();
            rec["events"] = json!(small.events);
            rec["violation"] = json!({"step": v.step, "summary": v.summary});
            rec["minimised"] = json!({"events_before": before, "events_after": small.events.len(), "candidate_runs": tests});
            if let Some(parent) = std::path::Path::new(dest).parent() {
                let _ = std::fs::create_dir_all(parent);
            }
            match std::fs::write(dest, serde_json::to_vec_pretty(&rec).unwrap_or_default()) {
                Ok(()) => 0,
                Err(e) => {
                    println!("HARNESS-ERROR cannot write {dest}: {e}");
                    3
                }
            }
        }
    }
}

pub fn main() -> i32 {
    let a = parse_args();
    if matches!(a.pos.first().map(|s| s.as_str()), Some("batch" | "replay" | "minimise" | "selftest")) {
        warm_up();
    }
    let code = match a.pos.first().map(|s| s.as_str()) {
        Some("batch") => batch(&a),
        Some("replay") => replay(&a),
        Some("minimise") => minimise_cmd(&a),
        Some("selftest") => selftest::run(&PathBuf::from(a.opt.get("out").cloned().unwrap_or_else(|| ".".into()))),
        Some("show") => {
            let seed: u64 = a.pos.get(1).and_then(|s| s.parse().ok()).unwrap_or(1);
            let s = gen::generate(seed, a.flags.iter().any(|f| f == "long"));
            println!("{}", serde_json::to_string_pretty(&s).unwrap_or_default());
            0
        }
        _ => {
            println!("HARNESS-ERROR usage: c44sim batch|replay|minimise|selftest|show ...");
            3
        }
    };
    let _ = std::io::stdout().flush();
    code
}
