// GENERATED from templates/main.rs.in by build.sh (KANIDM_SRC=/repo). Do not edit.
//
// The kanidm resolver modules under test are compiled from the kanidm working tree by path;
// nothing is copied. This mirrors the module list of
// /repo/unix_integration/resolver_common/src/lib.rs (db, idprovider, resolver) without
// the CLI / option / check modules, and without `#![deny(warnings)]`. The `kanidm_client`
// crate they link against is the simulation's stub (client-stub/).
#![allow(dead_code)]
#![allow(clippy::all)]

#[macro_use]
extern crate tracing;
#[macro_use]
extern crate rusqlite;

#[path = "/repo/unix_integration/resolver_common/src/db.rs"]
pub mod db;
#[path = "/repo/unix_integration/resolver_common/src/idprovider/mod.rs"]
pub mod idprovider;
#[path = "/repo/unix_integration/resolver_common/src/resolver.rs"]
pub mod resolver;

#[path = "/verif/sim-resolver/src/sim/mod.rs"]
mod sim;

/// kanidm tree this executable was compiled from (checked by the source-text pins at start-up).
pub const KANIDM_SRC: &str = "/repo";

fn main() {
    std::process::exit(sim::main());
}
