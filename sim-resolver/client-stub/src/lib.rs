//! Stand-in for kanidm's `kanidm_client` crate, for the C44 simulation.
//!
//! The resolver's `KanidmProvider` is compiled against THIS crate instead of the real HTTP
//! client. It offers exactly the items that
//! `unix_integration/resolver_common/src/idprovider/kanidm.rs` uses (`KanidmClient` with six
//! methods, `ClientError`, `StatusCode`), with the signatures of the real crate
//! (`libs/client/src/lib.rs`; `tools/driver.py` pins them with a source-text check). Every call
//! is answered at once, in the caller's thread, from a shared in-memory model of the identity
//! server (`SimServer`) that the simulator scripts: there is no socket, no runtime, no clock.
//!
//! Every call and its answer is appended to `SimServer::log`, which is how the simulator knows
//! what "was verified online" (a `cred_verify` answered `Ok(Some(_))`).

use kanidm_proto::internal::OperationError;
use kanidm_proto::v1::{Entry, UnixGroupToken, UnixUserToken};
use std::collections::BTreeMap;
use std::sync::{Arc, Mutex};
use uuid::Uuid;

pub use http::StatusCode;

/// What the real crate carries in `ClientError::Transport` is a `reqwest::Error`; the resolver
/// only ever prints it with `{:?}`.
#[derive(Debug)]
pub struct TransportError(pub &'static str);

/// Same variant names and shapes as the real `kanidm_client::ClientError` for the variants the
/// resolver matches on (`Http`, `Transport`); the rest are the payload-free ones.
#[derive(Debug)]
pub enum ClientError {
    Unauthorized,
    SessionExpired,
    Http(StatusCode, Option<OperationError>, String),
    Transport(TransportError),
    AuthenticationFailed,
    EmptyResponse,
    SystemError,
}

/// Reachability / health of the simulated identity server as seen from the machines.
#[derive(Debug, Clone, Copy, PartialEq, Eq)]
pub enum NetMode {
    /// Requests are answered from the model.
    Up,
    /// Every request fails in the transport (connection refused / timeout).
    Unreachable,
    /// Every request is answered `500 Internal Server Error`.
    Http500,
    /// Every request is answered `401 Unauthorized` (the machine's service session is refused).
    Unauthorized,
}

#[derive(Debug, Clone)]
pub struct SimGroup {
    pub name: String,
    pub spn: String,
    pub uuid: Uuid,
    pub gidnumber: u32,
}

#[derive(Debug, Clone)]
pub struct SimUser {
    pub name: String,
    pub spn: String,
    pub uuid: Uuid,
    pub gidnumber: u32,
    pub displayname: String,
    /// The unix password the server currently holds for this account (never empty).
    pub password: String,
    pub groups: Vec<SimGroup>,
}

#[derive(Debug, Clone, PartialEq, Eq)]
pub enum Answer {
    /// cred_verify: password matched, a token was returned.
    VerifiedOk,
    /// cred_verify: password did not match (`Ok(None)`).
    VerifiedNo,
    /// any other successful answer
    Ok,
    NotFound,
    Transport,
    Http500,
    Http401,
}

#[derive(Debug, Clone)]
pub struct Call {
    pub endpoint: &'static str,
    pub id: String,
    /// Only for cred_verify: the credential that was presented.
    pub cred: Option<String>,
    pub answer: Answer,
}

#[derive(Debug)]
pub struct SimServer {
    pub mode: NetMode,
    pub users: BTreeMap<String, SimUser>,
    pub log: Vec<Call>,
    pub opid: u64,
}

impl SimServer {
    pub fn new() -> Self {
        SimServer {
            mode: NetMode::Up,
            users: BTreeMap::new(),
            log: Vec::new(),
            opid: 0,
        }
    }

    fn find_user(&self, id: &str) -> Option<&SimUser> {
        self.users.values().find(|u| {
            u.name == id
                || u.spn == id
                || u.uuid.hyphenated().to_string() == id
                || u.gidnumber.to_string() == id
        })
    }

    fn find_group(&self, id: &str) -> Option<SimGroup> {
        for u in self.users.values() {
            for g in u.groups.iter() {
                if g.name == id
                    || g.spn == id
                    || g.uuid.hyphenated().to_string() == id
                    || g.gidnumber.to_string() == id
                {
                    return Some(g.clone());
                }
            }
        }
        None
    }

    fn opid(&mut self) -> String {
        self.opid += 1;
        format!("sim-op-{}", self.opid)
    }

    /// Common front: the answer every endpoint gives when the server is not `Up`.
    fn gate(&mut self, endpoint: &'static str, id: &str, cred: Option<&str>) -> Result<(), ClientError> {
        let (answer, err) = match self.mode {
            NetMode::Up => return Ok(()),
            NetMode::Unreachable => (
                Answer::Transport,
                ClientError::Transport(TransportError("simulated: connection refused")),
            ),
            NetMode::Http500 => {
                let op = self.opid();
                (
                    Answer::Http500,
                    ClientError::Http(StatusCode::INTERNAL_SERVER_ERROR, None, op),
                )
            }
            NetMode::Unauthorized => {
                let op = self.opid();
                (
                    Answer::Http401,
                    ClientError::Http(
                        StatusCode::UNAUTHORIZED,
                        Some(OperationError::SessionExpired),
                        op,
                    ),
                )
            }
        };
        self.log.push(Call {
            endpoint,
            id: id.to_string(),
            cred: cred.map(str::to_string),
            answer,
        });
        Err(err)
    }

    fn record(&mut self, endpoint: &'static str, id: &str, cred: Option<&str>, answer: Answer) {
        self.log.push(Call {
            endpoint,
            id: id.to_string(),
            cred: cred.map(str::to_string),
            answer,
        });
    }
}

impl Default for SimServer {
    fn default() -> Self {
        Self::new()
    }
}

fn user_token(u: &SimUser) -> UnixUserToken {
    UnixUserToken {
        name: u.name.clone(),
        spn: u.spn.clone(),
        displayname: u.displayname.clone(),
        gidnumber: u.gidnumber,
        uuid: u.uuid,
        shell: None,
        groups: u
            .groups
            .iter()
            .map(|g| UnixGroupToken {
                name: g.name.clone(),
                spn: g.spn.clone(),
                uuid: g.uuid,
                gidnumber: g.gidnumber,
            })
            .collect(),
        sshkeys: Vec::new(),
        valid: true,
    }
}

pub type SharedServer = Arc<Mutex<SimServer>>;

/// The stub client: a handle on the shared server model.
pub struct KanidmClient {
    server: SharedServer,
    token: Mutex<Option<String>>,
}

impl KanidmClient {
    pub fn new_sim(server: SharedServer) -> Self {
        KanidmClient {
            server,
            token: Mutex::new(None),
        }
    }

    fn srv(&self) -> std::sync::MutexGuard<'_, SimServer> {
        match self.server.lock() {
            Ok(g) => g,
            Err(p) => p.into_inner(),
        }
    }

    // ---- the six methods KanidmProvider uses; signatures as in libs/client/src/lib.rs ----

    pub async fn set_token(&self, new_token: String) {
        if let Ok(mut t) = self.token.lock() {
            *t = Some(new_token);
        }
    }

    pub async fn whoami(&self) -> Result<Option<Entry>, ClientError> {
        let mut s = self.srv();
        s.gate("whoami", "", None)?;
        s.record("whoami", "", None, Answer::Ok);
        Ok(Some(Entry {
            attrs: BTreeMap::new(),
        }))
    }

    pub async fn auth_anonymous(&self) -> Result<(), ClientError> {
        let mut s = self.srv();
        s.gate("auth_anonymous", "", None)?;
        s.record("auth_anonymous", "", None, Answer::Ok);
        Ok(())
    }

    pub async fn idm_account_unix_token_get(&self, id: &str) -> Result<UnixUserToken, ClientError> {
        let mut s = self.srv();
        s.gate("account_unix_token_get", id, None)?;
        match s.find_user(id).map(user_token) {
            Some(t) => {
                s.record("account_unix_token_get", id, None, Answer::Ok);
                Ok(t)
            }
            None => {
                s.record("account_unix_token_get", id, None, Answer::NotFound);
                let op = s.opid();
                Err(ClientError::Http(
                    StatusCode::NOT_FOUND,
                    Some(OperationError::NoMatchingEntries),
                    op,
                ))
            }
        }
    }

    pub async fn idm_group_unix_token_get(&self, id: &str) -> Result<UnixGroupToken, ClientError> {
        let mut s = self.srv();
        s.gate("group_unix_token_get", id, None)?;
        match s.find_group(id) {
            Some(g) => {
                s.record("group_unix_token_get", id, None, Answer::Ok);
                Ok(UnixGroupToken {
                    name: g.name,
                    spn: g.spn,
                    uuid: g.uuid,
                    gidnumber: g.gidnumber,
                })
            }
            None => {
                s.record("group_unix_token_get", id, None, Answer::NotFound);
                let op = s.opid();
                Err(ClientError::Http(
                    StatusCode::NOT_FOUND,
                    Some(OperationError::NoMatchingEntries),
                    op,
                ))
            }
        }
    }

    pub async fn idm_account_unix_cred_verify(
        &self,
        id: &str,
        cred: &str,
    ) -> Result<Option<UnixUserToken>, ClientError> {
        let mut s = self.srv();
        s.gate("account_unix_cred_verify", id, Some(cred))?;
        let found = s.find_user(id).map(|u| (u.password == cred && !cred.is_empty(), user_token(u)));
        match found {
            Some((true, tok)) => {
                s.record("account_unix_cred_verify", id, Some(cred), Answer::VerifiedOk);
                Ok(Some(tok))
            }
            Some((false, _)) => {
                s.record("account_unix_cred_verify", id, Some(cred), Answer::VerifiedNo);
                Ok(None)
            }
            None => {
                s.record("account_unix_cred_verify", id, Some(cred), Answer::NotFound);
                let op = s.opid();
                Err(ClientError::Http(
                    StatusCode::NOT_FOUND,
                    Some(OperationError::NoMatchingEntries),
                    op,
                ))
            }
        }
    }
}
