#!/usr/bin/env bash
# Builds the C47 engine offline: simtokio facade, shadow `kanidm_actors` (the real source file,
# path from $KANIDM_ACTORS_SRC, default /repo/libs/actors/src/lib.rs) and the c47sim binary.
# Prints the path of the binary on stdout. Exits non-zero on any failure.
set -euo pipefail
HERE="$(cd "$(dirname "${BASH_SOURCE[0]}")" && pwd)"
export CARGO_NET_OFFLINE=true RUSTUP_TOOLCHAIN=1.96.0
SRC="${KANIDM_ACTORS_SRC:-/repo/libs/actors/src/lib.rs}"
LOCK_SRC="${KANIDM_LOCK_SRC:-/repo/Cargo.lock}"
[ -f "$SRC" ] || { echo "build.sh: actors source $SRC not found" >&2; exit 3; }
[ -f "$LOCK_SRC" ] || { echo "build.sh: $LOCK_SRC not found" >&2; exit 3; }

# Shadow manifest from the template (only rewritten when it changes, to keep cargo fingerprints).
SCRATCH="/dev/shm/c47-build-$$"
mkdir -p "$SCRATCH"
trap 'rm -rf "$SCRATCH"' EXIT
TMP="$SCRATCH/Cargo.toml"
sed "s|@KANIDM_ACTORS_SRC@|$SRC|g" "$HERE/shadow/Cargo.toml.in" > "$TMP"
cmp -s "$TMP" "$HERE/shadow/Cargo.toml" 2>/dev/null || cp "$TMP" "$HERE/shadow/Cargo.toml"

# Lock file: seeded from /repo's so that every dependency version is the one kanidm builds with.
# Re-seeded when the tokio/tracing pins in /repo's lock differ from ours.
pin() { awk -v n="$2" '$0=="name = \""n"\"" {getline; print; exit}' "$1" 2>/dev/null || true; }
if [ ! -f "$HERE/Cargo.lock" ] \
   || [ "$(pin "$HERE/Cargo.lock" tokio)" != "$(pin "$LOCK_SRC" tokio)" ] \
   || [ "$(pin "$HERE/Cargo.lock" tracing)" != "$(pin "$LOCK_SRC" tracing)" ]; then
  cp "$LOCK_SRC" "$HERE/Cargo.lock"
fi

cd "$HERE"
LOG="$SCRATCH/cargo.log"
if ! cargo build --offline --release -p c47sim >"$LOG" 2>&1; then
  cat "$LOG" >&2
  echo "build.sh: cargo build failed" >&2
  exit 3
fi
BIN="/verif/target-actors/release/c47sim"
[ -x "$BIN" ] || { echo "build.sh: $BIN missing after build" >&2; exit 3; }
echo "$BIN"
