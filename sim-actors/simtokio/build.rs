// Locates the source of the *real* tokio `select!` macro (the exact tokio version pinned in the
// workspace Cargo.lock) in the local cargo registry and hands its path to the crate through
// SIMTOKIO_SELECT_RS. simtokio `include!`s that file so that `tokio::select!` as seen by the shadow
// build is tokio's own macro text, with `$crate` resolving to simtokio; the only thing that changes
// is `$crate::macros::support::thread_rng_n`, which becomes a recorded simulator choice.
use std::path::PathBuf;

fn main() {
    let manifest = PathBuf::from(std::env::var("CARGO_MANIFEST_DIR").expect("CARGO_MANIFEST_DIR"));
    let lock = manifest.join("..").join("Cargo.lock");
    println!("cargo:rerun-if-changed={}", lock.display());
    println!("cargo:rerun-if-changed=build.rs");
    let text = std::fs::read_to_string(&lock).expect("read workspace Cargo.lock");
    let mut version = None;
    let mut lines = text.lines();
    while let Some(l) = lines.next() {
        if l.trim() == "name = \"tokio\"" {
            if let Some(v) = lines.next() {
                let v = v.trim();
                if let Some(rest) = v.strip_prefix("version = \"") {
                    version = Some(rest.trim_end_matches('"').to_string());
                }
            }
            break;
        }
    }
    let version = version.expect("tokio version not found in Cargo.lock");
    let cargo_home = std::env::var("CARGO_HOME")
        .map(PathBuf::from)
        .unwrap_or_else(|_| PathBuf::from(std::env::var("HOME").expect("HOME")).join(".cargo"));
    let src = cargo_home.join("registry").join("src");
    let mut found = None;
    if let Ok(rd) = std::fs::read_dir(&src) {
        let mut dirs: Vec<_> = rd.filter_map(|e| e.ok()).map(|e| e.path()).collect();
        dirs.sort();
        for d in dirs {
            let p = d
                .join(format!("tokio-{version}"))
                .join("src")
                .join("macros")
                .join("select.rs");
            if p.is_file() {
                found = Some(p);
                break;
            }
        }
    }
    let found = found.unwrap_or_else(|| {
        panic!(
            "tokio-{version}/src/macros/select.rs not found under {}",
            src.display()
        )
    });
    println!("cargo:rerun-if-changed={}", found.display());
    println!("cargo:rustc-env=SIMTOKIO_SELECT_RS={}", found.display());
    println!("cargo:rustc-env=SIMTOKIO_TOKIO_VERSION={version}");
}
