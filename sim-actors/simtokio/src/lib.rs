//! `simtokio` — the crate the shadow build of `kanidm_actors` sees under the name `tokio`.
//!
//! Real (re-exported from the tokio version in the lock file): `sync` (broadcast, mpsc, Notify, …),
//! `signal`, `pin!`, the text of the `select!` macro and its proc-macro helpers, the cooperative
//! budget (every simulated task poll happens inside one poll of a real current-thread `block_on`, so
//! each poll gets tokio's own budget of 128 operations exactly as a real task poll does).
//!
//! Simulated: `spawn`, `task::{spawn, JoinHandle, JoinError}` — tasks live on a single-threaded
//! executor owned by the simulator (module [`sim`]); at every step a [`sim::Policy`] picks exactly one
//! woken task, which is polled once. `select!`'s random starting branch is also a policy choice, so
//! that it is recorded in the schedule and replayable.

use std::cell::RefCell;
use std::future::Future;
use std::pin::Pin;
use std::sync::atomic::{AtomicBool, Ordering};
use std::sync::{Arc, Mutex};
use std::task::{Context, Poll, Wake, Waker};

pub use real_tokio::{pin, signal, sync};

#[doc(hidden)]
pub use real_tokio::{select_priv_clean_pattern, select_priv_declare_output_enum};

// tokio's own select.rs: defines (with #[macro_export]) select!, count!, count_field!,
// select_variant!. `$crate` inside it now means simtokio.
include!(env!("SIMTOKIO_SELECT_RS"));

/// Version of the real tokio whose select! text and sync primitives are in use.
pub const REAL_TOKIO_VERSION: &str = env!("SIMTOKIO_TOKIO_VERSION");

#[doc(hidden)]
pub mod macros {
    #[doc(hidden)]
    pub mod support {
        pub use real_tokio::macros::support::{
            poll_budget_available, poll_fn, ready, Context, Future, IntoFuture, Pin, Poll,
        };

        /// tokio draws the first branch to poll from a thread-local RNG seeded from OS entropy;
        /// here it is a scheduling choice made (and recorded) by the simulator's policy.
        #[doc(hidden)]
        pub fn thread_rng_n(n: u32) -> u32 {
            crate::sim::select_choice(n)
        }
    }
}

pub mod task {
    pub use crate::{spawn, JoinError, JoinHandle};
}

// ---------------------------------------------------------------------------------------------
// JoinHandle / JoinError
// ---------------------------------------------------------------------------------------------

struct JoinSt<T> {
    out: Option<T>,
    finished: bool,
    waker: Option<Waker>,
}

pub struct JoinHandle<T> {
    st: Arc<Mutex<JoinSt<T>>>,
    id: usize,
}

impl<T> Unpin for JoinHandle<T> {}

impl<T> JoinHandle<T> {
    pub fn is_finished(&self) -> bool {
        self.st.lock().map(|g| g.finished).unwrap_or(true)
    }
    /// Simulator task id (spawn order, starting at 0).
    pub fn sim_id(&self) -> usize {
        self.id
    }
}

impl<T> std::fmt::Debug for JoinHandle<T> {
    fn fmt(&self, f: &mut std::fmt::Formatter<'_>) -> std::fmt::Result {
        write!(f, "JoinHandle(sim task {})", self.id)
    }
}

impl<T> Future for JoinHandle<T> {
    type Output = Result<T, JoinError>;
    fn poll(self: Pin<&mut Self>, cx: &mut Context<'_>) -> Poll<Self::Output> {
        let mut g = match self.st.lock() {
            Ok(g) => g,
            Err(_) => return Poll::Ready(Err(JoinError { id: self.id })),
        };
        if g.finished {
            match g.out.take() {
                Some(v) => Poll::Ready(Ok(v)),
                // Same contract as tokio: a completed JoinHandle must not be polled again.
                None => panic!("JoinHandle polled after completion"),
            }
        } else {
            g.waker = Some(cx.waker().clone());
            Poll::Pending
        }
    }
}

/// Never produced by the simulator (tasks are not aborted, and a panic inside a task aborts the
/// run as a harness error); exists so that `JoinHandle::Output` has tokio's shape.
pub struct JoinError {
    id: usize,
}
impl JoinError {
    pub fn is_cancelled(&self) -> bool {
        false
    }
    pub fn is_panic(&self) -> bool {
        true
    }
}
impl std::fmt::Debug for JoinError {
    fn fmt(&self, f: &mut std::fmt::Formatter<'_>) -> std::fmt::Result {
        write!(f, "JoinError(sim task {})", self.id)
    }
}
impl std::fmt::Display for JoinError {
    fn fmt(&self, f: &mut std::fmt::Formatter<'_>) -> std::fmt::Result {
        write!(f, "sim task {} failed", self.id)
    }
}
impl std::error::Error for JoinError {}

// ---------------------------------------------------------------------------------------------
// Executor
// ---------------------------------------------------------------------------------------------

struct Flag(AtomicBool);
impl Wake for Flag {
    fn wake(self: Arc<Self>) {
        self.0.store(true, Ordering::SeqCst);
    }
    fn wake_by_ref(self: &Arc<Self>) {
        self.0.store(true, Ordering::SeqCst);
    }
}

type BoxFut = Pin<Box<dyn Future<Output = ()>>>;

struct Slot {
    fut: Option<BoxFut>,
    flag: Arc<Flag>,
    finished: bool,
    kind: &'static str,
    parent: Option<usize>,
    polls: u64,
}

struct Core {
    active: bool,
    tasks: Vec<Slot>,
    live: Vec<usize>,
    timers: Vec<(u64, u64, Waker)>, // (deadline, seq, waker)
    timer_seq: u64,
    clock: u64,
    steps: u64,
    idle_jumps: u64,
    budget_exhausted: u64,
    current: Option<usize>,
    policy: Option<Box<dyn sim::Policy>>,
    sched: Vec<u32>,
    sels: Vec<(u32, u8)>, // (index into sched, choice)
    scratch: Vec<usize>,
}

impl Core {
    fn new() -> Self {
        Core {
            active: false,
            tasks: Vec::new(),
            live: Vec::new(),
            timers: Vec::new(),
            timer_seq: 0,
            clock: 0,
            steps: 0,
            idle_jumps: 0,
            budget_exhausted: 0,
            current: None,
            policy: None,
            sched: Vec::new(),
            sels: Vec::new(),
            scratch: Vec::new(),
        }
    }
}

thread_local! {
    static CORE: RefCell<Core> = RefCell::new(Core::new());
    static RT: real_tokio::runtime::Runtime = real_tokio::runtime::Builder::new_current_thread()
        .build()
        .expect("real tokio current-thread runtime (used only for its cooperative budget)");
}

/// `tokio::spawn` as seen by the code under test. Same bounds as tokio's.
pub fn spawn<F>(fut: F) -> JoinHandle<F::Output>
where
    F: Future + Send + 'static,
    F::Output: Send + 'static,
{
    let st = Arc::new(Mutex::new(JoinSt {
        out: None,
        finished: false,
        waker: None,
    }));
    let st2 = st.clone();
    let wrapped = async move {
        // `fut.await` consumes the future: it is dropped at the end of this statement, i.e. in the
        // same poll in which it completes and before the task is marked finished -- as in tokio,
        // where the task cell drops the future when it stores the output.
        let out = fut.await;
        let waker = {
            let mut g = st2.lock().unwrap_or_else(|e| e.into_inner());
            g.out = Some(out);
            g.finished = true;
            g.waker.take()
        };
        if let Some(w) = waker {
            w.wake();
        }
    };
    let id = CORE.with(|c| {
        let mut c = c.borrow_mut();
        assert!(c.active, "simtokio::spawn called outside a simulation");
        let id = c.tasks.len();
        let parent = c.current;
        c.tasks.push(Slot {
            fut: Some(Box::pin(wrapped)),
            flag: Arc::new(Flag(AtomicBool::new(true))),
            finished: false,
            kind: std::any::type_name::<F>(),
            parent,
            polls: 0,
        });
        c.live.push(id);
        if let Some(p) = c.policy.as_mut() {
            p.on_spawn(id);
        }
        id
    });
    JoinHandle { st, id }
}

pub mod sim {
    //! Simulator-facing API of the executor. Everything is thread-local: one simulation per thread.
    use super::*;

    /// Decides every nondeterministic choice of a run.
    pub trait Policy {
        fn on_spawn(&mut self, _task: usize) {}
        /// Pick one of `runnable` (non-empty, ascending task ids). Returns the task id.
        fn pick(&mut self, step: u64, runnable: &[usize]) -> usize;
        /// `select!` asks which of its `n` branches to poll first.
        fn select(&mut self, task: usize, n: u32) -> u32;
        /// Called after the poll. `yielded`: the task returned Pending with its own wake flag set.
        fn after_poll(&mut self, _task: usize, _yielded: bool, _finished: bool) {}
    }

    #[derive(Debug, Clone, Copy, PartialEq, Eq)]
    pub enum Step {
        Polled(usize),
        /// Nothing runnable and no timer pending.
        Idle,
    }

    #[derive(Debug, Clone, Copy, PartialEq, Eq)]
    pub enum RunEnd {
        /// nothing runnable and no timer pending
        Idle,
        Budget,
        /// `halt()` was called (an oracle fired)
        Halted,
        /// the caller's completion predicate became true
        Complete,
    }

    /// Start a fresh simulation on this thread.
    pub fn reset(policy: Box<dyn Policy>) {
        // Drop the previous run's futures *outside* the borrow: their destructors may call back
        // into the executor (instrumented actors record their drop).
        let old = CORE.with(|c| std::mem::replace(&mut *c.borrow_mut(), Core::new()));
        drop(old);
        CORE.with(|c| {
            let mut c = c.borrow_mut();
            c.active = true;
            c.policy = Some(policy);
        });
        HALT.with(|h| h.set(false));
    }

    /// End the simulation: drops all remaining futures, returns (schedule, select choices).
    pub fn finish() -> (Vec<u32>, Vec<(u32, u8)>) {
        let old = CORE.with(|c| std::mem::replace(&mut *c.borrow_mut(), Core::new()));
        let Core {
            tasks, sched, sels, ..
        } = old;
        // Dropping a future may run instrumented destructors that consult the (now inactive) core.
        drop(tasks);
        (sched, sels)
    }

    thread_local! { static HALT: std::cell::Cell<bool> = const { std::cell::Cell::new(false) }; }

    /// Ask the run loop to stop after the current poll (used when an oracle has fired).
    pub fn halt() {
        HALT.with(|h| h.set(true));
    }

    pub fn steps() -> u64 {
        CORE.with(|c| c.borrow().steps)
    }
    /// Simulated clock: one tick per executed step, plus jumps to the next timer when idle.
    pub fn clock() -> u64 {
        CORE.with(|c| c.borrow().clock)
    }
    pub fn idle_jumps() -> u64 {
        CORE.with(|c| c.borrow().idle_jumps)
    }
    /// Number of task polls that ended with tokio's cooperative budget used up.
    pub fn budget_exhausted_polls() -> u64 {
        CORE.with(|c| c.borrow().budget_exhausted)
    }
    pub fn timers_pending() -> usize {
        CORE.with(|c| c.borrow().timers.len())
    }
    pub fn current_task() -> Option<usize> {
        CORE.with(|c| c.borrow().current)
    }
    pub fn task_count() -> usize {
        CORE.with(|c| c.borrow().tasks.len())
    }
    /// Id of the most recently spawned task.
    pub fn last_spawned() -> Option<usize> {
        CORE.with(|c| c.borrow().tasks.len().checked_sub(1))
    }
    pub fn is_finished(task: usize) -> bool {
        CORE.with(|c| c.borrow().tasks.get(task).map(|t| t.finished).unwrap_or(false))
    }
    /// `type_name` of the future the task was spawned with.
    pub fn task_kind(task: usize) -> &'static str {
        CORE.with(|c| c.borrow().tasks.get(task).map(|t| t.kind).unwrap_or(""))
    }
    pub fn task_parent(task: usize) -> Option<usize> {
        CORE.with(|c| c.borrow().tasks.get(task).and_then(|t| t.parent))
    }
    pub fn task_polls(task: usize) -> u64 {
        CORE.with(|c| c.borrow().tasks.get(task).map(|t| t.polls).unwrap_or(0))
    }
    pub fn unfinished_tasks() -> Vec<usize> {
        CORE.with(|c| c.borrow().live.clone())
    }
    /// True while the budget tokio hands to a task poll still has units left.
    pub fn has_budget_remaining() -> bool {
        real_tokio::task::coop::has_budget_remaining()
    }

    pub(crate) fn select_choice(n: u32) -> u32 {
        CORE.with(|c| {
            let mut c = c.borrow_mut();
            let task = c.current.unwrap_or(usize::MAX);
            let v = match c.policy.as_mut() {
                Some(p) => p.select(task, n) % n.max(1),
                None => 0,
            };
            let idx = c.sched.len().saturating_sub(1) as u32;
            c.sels.push((idx, v as u8));
            v
        })
    }

    /// Resolves once the simulated clock has reached `deadline`.
    pub fn until(deadline: u64) -> Until {
        Until {
            deadline,
            registered: false,
        }
    }
    pub struct Until {
        deadline: u64,
        registered: bool,
    }
    impl Future for Until {
        type Output = ();
        fn poll(mut self: Pin<&mut Self>, cx: &mut Context<'_>) -> Poll<()> {
            let deadline = self.deadline;
            let fire = CORE.with(|c| {
                let mut c = c.borrow_mut();
                if c.clock >= deadline {
                    return true;
                }
                if !self.registered {
                    let seq = c.timer_seq;
                    c.timer_seq += 1;
                    c.timers.push((deadline, seq, cx.waker().clone()));
                }
                false
            });
            if fire {
                Poll::Ready(())
            } else {
                self.registered = true;
                Poll::Pending
            }
        }
    }

    /// Yield to the executor `n` times (returns Pending after waking itself).
    pub fn yield_n(n: u32) -> YieldN {
        YieldN { left: n }
    }
    pub struct YieldN {
        left: u32,
    }
    impl Future for YieldN {
        type Output = ();
        fn poll(mut self: Pin<&mut Self>, cx: &mut Context<'_>) -> Poll<()> {
            if self.left == 0 {
                Poll::Ready(())
            } else {
                self.left -= 1;
                cx.waker().wake_by_ref();
                Poll::Pending
            }
        }
    }

    /// One executor step: fire due timers, pick one woken task, poll it once.
    pub fn step() -> Step {
        // Phase 1: choose.
        let chosen = CORE.with(|c| {
            let mut c = c.borrow_mut();
            let c = &mut *c;
            loop {
                // fire due timers (deterministic order: deadline, then registration order)
                if !c.timers.is_empty() {
                    let clock = c.clock;
                    let mut due: Vec<(u64, u64, Waker)> = Vec::new();
                    let mut i = 0;
                    while i < c.timers.len() {
                        if c.timers[i].0 <= clock {
                            due.push(c.timers.swap_remove(i));
                        } else {
                            i += 1;
                        }
                    }
                    due.sort_by_key(|t| (t.0, t.1));
                    for (_, _, w) in due {
                        w.wake();
                    }
                }
                c.scratch.clear();
                for &id in &c.live {
                    if c.tasks[id].flag.0.load(Ordering::SeqCst) {
                        c.scratch.push(id);
                    }
                }
                if !c.scratch.is_empty() {
                    break;
                }
                // nothing runnable: jump the clock to the next timer, if any
                match c.timers.iter().map(|t| t.0).min() {
                    Some(next) => {
                        c.clock = next.max(c.clock);
                        c.idle_jumps += 1;
                    }
                    None => return None,
                }
            }
            c.scratch.sort_unstable();
            let step = c.steps;
            let pick = match c.policy.as_mut() {
                Some(p) => p.pick(step, &c.scratch),
                None => c.scratch[0],
            };
            let pick = if c.scratch.contains(&pick) {
                pick
            } else {
                c.scratch[0]
            };
            let slot = &mut c.tasks[pick];
            slot.flag.0.store(false, Ordering::SeqCst);
            slot.polls += 1;
            let fut = slot.fut.take();
            let flag = slot.flag.clone();
            c.current = Some(pick);
            c.sched.push(pick as u32);
            c.steps += 1;
            c.clock += 1;
            Some((pick, fut, flag))
        });
        let Some((id, fut, flag)) = chosen else {
            return Step::Idle;
        };
        // Phase 2: poll, with no borrow of the core held.
        let mut fut = fut.expect("runnable task without a future");
        let waker = Waker::from(flag.clone());
        let mut cx = Context::from_waker(&waker);
        let done = fut.as_mut().poll(&mut cx).is_ready();
        let starved = !real_tokio::task::coop::has_budget_remaining();
        let keep = if done {
            drop(fut);
            None
        } else {
            Some(fut)
        };
        // Phase 3: book-keeping.
        CORE.with(|c| {
            let mut c = c.borrow_mut();
            let c = &mut *c;
            c.current = None;
            if starved {
                c.budget_exhausted += 1;
            }
            if done {
                c.tasks[id].finished = true;
                c.live.retain(|&t| t != id);
            } else {
                c.tasks[id].fut = keep;
            }
            // A poll that used up tokio's cooperative budget also counts as a yield: tokio hands
            // the task's waker to the runtime's defer list, which wakes it right after this
            // block_on poll (i.e. before the next step), not during the poll.
            let yielded = !done && (starved || flag.0.load(Ordering::SeqCst));
            if let Some(p) = c.policy.as_mut() {
                p.after_poll(id, yielded, done);
            }
        });
        Step::Polled(id)
    }

    /// Run steps until idle, `halt()` is called, `done()` says the scenario is complete, or
    /// `max_steps` have been executed in total.
    /// Every step happens inside exactly one poll of a real tokio `block_on`, so every simulated
    /// task poll starts with tokio's fresh cooperative budget.
    pub fn run(max_steps: u64, done: &mut dyn FnMut() -> bool) -> RunEnd {
        RT.with(|rt| {
            rt.block_on(std::future::poll_fn(|cx| {
                if HALT.with(|h| h.get()) {
                    return Poll::Ready(RunEnd::Halted);
                }
                if done() {
                    return Poll::Ready(RunEnd::Complete);
                }
                if steps() >= max_steps {
                    return Poll::Ready(RunEnd::Budget);
                }
                match step() {
                    Step::Idle => Poll::Ready(RunEnd::Idle),
                    Step::Polled(_) => {
                        cx.waker().wake_by_ref();
                        Poll::Pending
                    }
                }
            }))
        })
    }
}
