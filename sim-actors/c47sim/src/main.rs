//! c47sim — deterministic simulation check for property C47
//! ("Stopping a supervisor stops everything under it") over the real kanidm_actors source.
//!
//!   c47sim batch --tier quick|thorough [--runs N] [--wall-s S] [--workers W]
//!   c47sim replay <file> [--quiet]
//!   c47sim digests --runs N [--workers W]
//!
//! Exit codes: 0 property held, 1 violation (batch: after a confirmed fresh-process replay),
//! 2 harness error.

mod minimise;
mod plan;
mod policy;
mod rng;
mod run;
mod world;

use plan::{GenCfg, Plan};
use policy::{event_from_string, event_to_string, Event, Mode, Replay, Seeded};
use rng::Rng;
use run::{run_one, Outcome};
use serde::{Deserialize, Serialize};
use serde_json::json;
use std::collections::BTreeMap;
use std::sync::atomic::{AtomicU64, Ordering};
use std::sync::Arc;
use std::time::Instant;
use world::{Violation, CTR_LABELS, N_CTR};

pub const PROPERTY: &str = "C47";
/// More than 9x the longest run observed on the unchanged tree (441 steps in 4000 runs).
pub const STEP_BUDGET: u64 = 4_000;

#[derive(Serialize, Deserialize, Clone, Debug)]
pub struct RunCfg {
    pub tier: String,
    pub verif_seed: u64,
    pub index: u64,
    pub mode: Mode,
    pub step_budget: u64,
    pub gen: GenCfg,
    pub actors_src: String,
}

#[derive(Serialize, Deserialize, Clone, Debug)]
pub struct ReplayFile {
    pub property: String,
    pub oracle: String,
    pub signature: String,
    pub seed: u64,
    pub cfg: RunCfg,
    pub plan: Plan,
    pub events: Vec<String>,
    pub violation: ViolationBrief,
    #[serde(default)]
    pub minimisation: serde_json::Value,
}

#[derive(Serialize, Deserialize, Clone, Debug)]
pub struct ViolationBrief {
    pub step: u64,
    pub summary: String,
}

pub fn run_seed(verif_seed: u64, i: u64) -> u64 {
    verif_seed.wrapping_mul(1u64 << 32).wrapping_add(i)
}

pub fn mode_for(seed: u64) -> Mode {
    let mut r = Rng::new(seed, 4);
    if r.chance(60) {
        Mode::Uniform
    } else {
        Mode::Pct {
            d: r.range(1, 3) as u32,
            horizon: [60u64, 150, 400][r.below(3) as usize],
        }
    }
}

pub fn plan_for(seed: u64, gen: &GenCfg) -> Plan {
    let mut r = Rng::new(seed, 1);
    plan::generate(&mut r, gen)
}

fn actors_src() -> String {
    std::env::var("KANIDM_ACTORS_SRC").unwrap_or_else(|_| "/repo/libs/actors/src/lib.rs".to_string())
}

/// Generator knobs; the defaults are the committed configuration. Overrides (recorded in cfg):
/// C47_DYNAMIC_PCT=0 disables registrations concurrent with stops, C47_ORPHANS=0 disables
/// handles dropped without stop().
fn gen_cfg() -> GenCfg {
    let mut g = GenCfg::default();
    if let Some(v) = std::env::var("C47_DYNAMIC_PCT").ok().and_then(|s| s.parse::<u64>().ok()) {
        g.dynamic_pct = v.min(100);
    }
    if let Ok(v) = std::env::var("C47_ORPHANS") {
        g.orphans = v != "0";
    }
    g
}

fn verif_seed() -> u64 {
    std::env::var("VERIF_SEED").ok().and_then(|s| s.parse().ok()).unwrap_or(1)
}

fn arg_val(args: &[String], name: &str) -> Option<String> {
    args.iter().position(|a| a == name).and_then(|i| args.get(i + 1).cloned())
}

fn guarded_run(plan: Arc<Plan>, policy: Box<dyn simtokio::sim::Policy>, verbose: bool) -> Result<Outcome, String> {
    let r = std::panic::catch_unwind(std::panic::AssertUnwindSafe(|| run_one(plan, policy, STEP_BUDGET, verbose)));
    match r {
        Ok(o) => match &o.harness_error {
            Some(e) => Err(e.clone()),
            None => Ok(o),
        },
        Err(p) => {
            let msg = p
                .downcast_ref::<String>()
                .cloned()
                .or_else(|| p.downcast_ref::<&str>().map(|s| s.to_string()))
                .unwrap_or_else(|| "panic".to_string());
            Err(format!("panic inside a simulated run: {msg}"))
        }
    }
}

// ---------------------------------------------------------------------------------------------
// batch
// ---------------------------------------------------------------------------------------------

#[derive(Default)]
struct Group {
    first_index: u64,
    count: u64,
}

struct WorkerOut {
    runs: u64,
    ctr: [u64; N_CTR],
    digests: Vec<u64>,
    steps: u64,
    clock: u64,
    max_steps: u64,
    max_tasks: usize,
    sel_choices: u64,
    groups: BTreeMap<(String, String), Group>,
    modes: BTreeMap<String, u64>,
    shapes: BTreeMap<String, u64>,
    samples: Vec<(u64, serde_json::Value)>,
    errors: Vec<(u64, String)>,
}

fn mode_label(m: &Mode) -> String {
    match m {
        Mode::Uniform => "uniform".to_string(),
        Mode::Pct { d, .. } => format!("pct-d{d}"),
    }
}

fn batch(args: &[String]) -> i32 {
    let tier = arg_val(args, "--tier").unwrap_or_else(|| "quick".to_string());
    let default_runs: u64 = if tier == "thorough" { 30_000_000 } else { 1_000_000 };
    let default_wall: f64 = if tier == "thorough" { 840.0 } else { 50.0 };
    let runs: u64 = arg_val(args, "--runs").and_then(|s| s.parse().ok()).unwrap_or(default_runs);
    let wall_cap: f64 = arg_val(args, "--wall-s").and_then(|s| s.parse().ok()).unwrap_or(default_wall);
    let workers: usize = arg_val(args, "--workers")
        .and_then(|s| s.parse().ok())
        .unwrap_or_else(|| std::thread::available_parallelism().map(|n| n.get()).unwrap_or(4));
    let evidence_path = arg_val(args, "--evidence").unwrap_or_else(|| format!("/verif/evidence/{PROPERTY}.json"));
    let replay_dir = arg_val(args, "--replays").unwrap_or_else(|| format!("/verif/replays/{PROPERTY}"));
    let known_path = arg_val(args, "--known").unwrap_or_else(|| "/verif/KNOWN_FINDINGS.json".to_string());
    let vseed = verif_seed();
    let gen = gen_cfg();
    let t0 = Instant::now();
    let next = AtomicU64::new(0);
    const CHUNK: u64 = 256;

    let outs: Vec<WorkerOut> = std::thread::scope(|s| {
        let hs: Vec<_> = (0..workers)
            .map(|_| {
                let gen = gen.clone();
                let next = &next;
                s.spawn(move || {
                    let mut w = WorkerOut {
                        runs: 0,
                        ctr: [0; N_CTR],
                        digests: Vec::new(),
                        steps: 0,
                        clock: 0,
                        max_steps: 0,
                        max_tasks: 0,
                        sel_choices: 0,
                        groups: BTreeMap::new(),
                        modes: BTreeMap::new(),
                        shapes: BTreeMap::new(),
                        samples: Vec::new(),
                        errors: Vec::new(),
                    };
                    loop {
                        // whole chunks are always completed, so the executed set is a prefix of
                        // the index space whatever the worker count
                        if t0.elapsed().as_secs_f64() > wall_cap {
                            break;
                        }
                        let start = next.fetch_add(CHUNK, Ordering::SeqCst);
                        if start >= runs {
                            break;
                        }
                        for i in start..(start + CHUNK).min(runs) {
                            let seed = run_seed(vseed, i);
                            let plan = Arc::new(plan_for(seed, &gen));
                            let mode = mode_for(seed);
                            let pol = Box::new(Seeded::new(seed, mode.clone()));
                            match guarded_run(plan.clone(), pol, false) {
                                Err(e) => w.errors.push((i, e)),
                                Ok(o) => {
                                    w.runs += 1;
                                    for k in 0..N_CTR {
                                        w.ctr[k] += o.ctr[k];
                                    }
                                    // lowest bit of the stored digest = "non-trivial" flag
                                    w.digests.push((o.digest & !1) | o.nontrivial as u64);
                                    w.steps += o.steps;
                                    w.clock += o.clock;
                                    w.max_steps = w.max_steps.max(o.steps);
                                    w.max_tasks = w.max_tasks.max(o.tasks);
                                    w.sel_choices += o.events.iter().map(|e| e.sels.len() as u64).sum::<u64>();
                                    *w.modes.entry(mode_label(&mode)).or_default() += 1;
                                    *w
                                        .shapes
                                        .entry(format!(
                                            "depth{}",
                                            plan.max_depth()
                                        ))
                                        .or_default() += 1;
                                    if i < 3 {
                                        w.samples.push((
                                            i,
                                            json!({
                                                "seed": seed,
                                                "cfg": {"mode": mode, "step_budget": STEP_BUDGET},
                                                "scenario": plan.describe(),
                                                "plan": &*plan,
                                                "steps": o.steps,
                                                "tasks": o.tasks,
                                                "first_events": o.events.iter().take(40).map(event_to_string).collect::<Vec<_>>(),
                                                "outcome": o.violation.as_ref().map(|v| format!("{} [{}]", v.oracle, v.signature)).unwrap_or_else(|| "property held".to_string()),
                                            }),
                                        ));
                                    }
                                    if let Some(v) = o.violation {
                                        let g = w.groups.entry((v.oracle, v.signature)).or_insert(Group {
                                            first_index: i,
                                            count: 0,
                                        });
                                        g.count += 1;
                                        g.first_index = g.first_index.min(i);
                                    }
                                }
                            }
                        }
                    }
                    w
                })
            })
            .collect();
        hs.into_iter().map(|h| h.join().expect("worker thread")).collect()
    });

    // ---- merge ----
    let mut ctr = [0u64; N_CTR];
    let mut digests: Vec<u64> = Vec::new();
    let (mut n_runs, mut steps, mut clock, mut max_steps, mut max_tasks, mut sel_choices) = (0u64, 0u64, 0u64, 0u64, 0usize, 0u64);
    let mut groups: BTreeMap<(String, String), Group> = BTreeMap::new();
    let mut modes: BTreeMap<String, u64> = BTreeMap::new();
    let mut shapes: BTreeMap<String, u64> = BTreeMap::new();
    let mut samples: Vec<(u64, serde_json::Value)> = Vec::new();
    let mut errors: Vec<(u64, String)> = Vec::new();
    for w in outs {
        for k in 0..N_CTR {
            ctr[k] += w.ctr[k];
        }
        digests.extend(w.digests);
        n_runs += w.runs;
        steps += w.steps;
        clock += w.clock;
        max_steps = max_steps.max(w.max_steps);
        max_tasks = max_tasks.max(w.max_tasks);
        sel_choices += w.sel_choices;
        for (k, g) in w.groups {
            let e = groups.entry(k).or_insert(Group {
                first_index: g.first_index,
                count: 0,
            });
            e.count += g.count;
            e.first_index = e.first_index.min(g.first_index);
        }
        for (k, v) in w.modes {
            *modes.entry(k).or_default() += v;
        }
        for (k, v) in w.shapes {
            *shapes.entry(k).or_default() += v;
        }
        samples.extend(w.samples);
        errors.extend(w.errors);
    }
    let sim_wall = t0.elapsed().as_secs_f64();
    if let Some((i, e)) = errors.iter().min_by_key(|e| e.0) {
        println!("HARNESS-ERROR property={PROPERTY} run index {i} (seed {}): {e}", run_seed(vseed, *i));
        return 2;
    }
    if n_runs == 0 {
        println!("HARNESS-ERROR property={PROPERTY} no run executed");
        return 2;
    }
    digests.sort_unstable();
    digests.dedup();
    let distinct_all = {
        let mut d: Vec<u64> = digests.iter().map(|x| x & !1).collect();
        d.dedup();
        d.len()
    };
    let distinct_nontrivial = digests.iter().filter(|x| *x & 1 == 1).count();
    samples.sort_by_key(|s| s.0);

    // ---- violations: minimise one example per (oracle, signature), write + confirm replays ----
    let known = load_known(&known_path);
    let mut unknown_lines: Vec<String> = Vec::new();
    let mut known_hits: Vec<serde_json::Value> = Vec::new();
    let mut group_report: Vec<serde_json::Value> = Vec::new();
    let mut violating_runs_unknown = 0u64;
    // the core case of the property (something registered before the stop is left behind, or a
    // bystander is stopped) is reported ahead of the concurrent-registration families
    let mut ordered: Vec<(&(String, String), &Group)> = groups.iter().collect();
    ordered.sort_by_key(|(k, _)| {
        let core = k.1.contains("class=registered-before-stop") || k.0 == "collateral-stop";
        (!core, k.0.clone(), k.1.clone())
    });
    for ((oracle, signature), g) in ordered {
        let seed = run_seed(vseed, g.first_index);
        let cfg = RunCfg {
            tier: tier.clone(),
            verif_seed: vseed,
            index: g.first_index,
            mode: mode_for(seed),
            step_budget: STEP_BUDGET,
            gen: gen.clone(),
            actors_src: actors_src(),
        };
        let file = match minimise::minimise_and_write(seed, &cfg, oracle, signature, &replay_dir) {
            Ok(f) => f,
            Err(e) => {
                println!("HARNESS-ERROR property={PROPERTY} minimising {oracle} [{signature}] seed {seed}: {e}");
                return 2;
            }
        };
        // confirm in a fresh process
        let exe = std::env::current_exe().expect("current_exe");
        let st = std::process::Command::new(exe)
            .arg("replay")
            .arg(&file)
            .arg("--quiet")
            .arg("--exact")
            .status();
        match st {
            Ok(s) if s.code() == Some(1) => {}
            other => {
                println!(
                    "HARNESS-ERROR property={PROPERTY} replay {file} did not reproduce in a fresh process ({other:?})"
                );
                return 2;
            }
        }
        let k = known.iter().find(|k| k.oracle == *oracle && k.signature == *signature);
        group_report.push(json!({
            "oracle": oracle, "signature": signature, "runs": g.count,
            "first_seed": seed, "replay": file, "known": k.is_some(),
        }));
        match k {
            Some(k) => {
                println!("KNOWN-FINDING: property={PROPERTY} {}", k.what);
                known_hits.push(json!({"oracle": oracle, "signature": signature, "runs": g.count, "replay": file}));
            }
            None => {
                violating_runs_unknown += g.count;
                unknown_lines.push(file);
            }
        }
    }

    // ---- evidence ----
    let wall = t0.elapsed().as_secs_f64();
    let mut faults = serde_json::Map::new();
    let mut probes = serde_json::Map::new();
    let mut at_zero: Vec<String> = Vec::new();
    for k in 0..N_CTR {
        let label = CTR_LABELS[k];
        if let Some(f) = label.strip_prefix("fault:") {
            faults.insert(f.to_string(), json!(ctr[k]));
            if ctr[k] == 0 {
                at_zero.push(f.to_string());
            }
        } else {
            probes.insert(label.to_string(), json!(ctr[k]));
            if ctr[k] == 0 {
                at_zero.push(label.to_string());
            }
        }
    }
    let evidence = json!({
        "property_id": PROPERTY,
        "tier": tier,
        "seed": vseed,
        "level": "exploration",
        "wall_s": wall,
        "violations": violating_runs_unknown,
        "assumptions": [
            "tokio's sync primitives (broadcast, mpsc, Notify), select! and cooperative budget are the real ones and are trusted; spawn/JoinHandle are the simulator's single-threaded executor: one task is polled at a time, so only interleavings at poll granularity are explored (no data races inside tokio)",
            "each individual actor step terminates: test actors yield a bounded number of times, scripts wait only on simulated timers, a holder only stops supervisors strictly below the one it is registered on",
            "a step budget that runs out while tasks are still runnable is reported as livelock; the scheduler is fair towards yielding tasks (uniform random; PCT demotes a task that yields)",
            "Runtime::exec is terminated through SoftwareSignalSource (Terminate, Interrupt, or all senders dropped); real unix signals (UnixSignalSource) are not exercised; a failing RuntimeSetup::setup is not exercised",
            "sampled, not exhaustive: a clean batch is evidence, not proof",
        ],
        "coverage": {
            "evaluations": n_runs,
            "distinct_nontrivial": distinct_nontrivial,
            "rule": "each run = one generated scenario (supervisor tree to depth 3 below the primary, 0-4 actors per supervisor with random setup/state/run/cleanup behaviour, holders of the subordinate handles that register/stop/drop at random simulated times, runtime termination) executed under one seeded schedule (uniform or PCT) in which every task poll and every select! start branch is a recorded choice. Non-trivial = at least one stop()/termination was issued while an actor under it was still alive. Distinct = distinct 64-bit digest of (plan, full schedule, select choices, instrumentation events, outcome).",
            "samples": samples.iter().map(|s| s.1.clone()).collect::<Vec<_>>(),
            "exhaustive": false,
            "simulated_runs": n_runs,
            "runs_per_hour": (n_runs as f64 / sim_wall.max(1e-9) * 3600.0) as u64,
            "simulated_time_covered_s": clock as f64 / 1000.0,
            "simulated_time_note": "simulated clock ticks (one per executor step plus idle jumps to the next timer), counted as 1 ms each; there is no wall-clock notion in this engine",
            "executor_steps": steps,
            "select_start_choices": sel_choices,
            "max_steps_in_a_run": max_steps,
            "max_tasks_in_a_run": max_tasks,
            "step_budget": STEP_BUDGET,
            "cfg": {"generator": &gen, "runs_requested": runs, "wall_cap_s": wall_cap, "schedule_modes": "60% uniform, 40% PCT with d in 1..3 (per run, from the seed)"},
            "workers": workers,
            "faults_fired": faults,
            "probes": probes,
            "probes_at_zero": at_zero,
            "distinct_schedules_or_states": distinct_all,
            "schedule_modes": modes,
            "tree_shapes": shapes,
            "violation_groups": group_report,
            "known_findings_hit": known_hits,
            "actors_source": actors_src(),
            "real_tokio_version": simtokio::REAL_TOKIO_VERSION,
            "components": {
                "real": [
                    "libs/actors/src/lib.rs (Runtime::exec, Supervisor, SupervisorTask, SupervisedActor, SoftwareSignalSource) compiled unmodified from the working tree",
                    "tokio::sync::{broadcast, mpsc}", "tokio::select! (tokio's macro text; only its start-branch RNG is the simulator's)",
                    "tokio cooperative budget (each task poll runs inside one real block_on poll)", "tracing (no subscriber)"
                ],
                "stub": [
                    "tokio::spawn / tokio::task::{spawn, JoinHandle, JoinError}: seeded single-threaded executor",
                    "actors, RuntimeSetup, SignalHandler: instrumented test implementations",
                    "signal source: SoftwareSignalSource driven by a scripted task"
                ],
                "not_run": ["UnixSignalSource (real unix signals)", "multi-threaded tokio scheduler", "RuntimeSetup::setup returning Err"]
            }
        }
    });
    if let Some(dir) = std::path::Path::new(&evidence_path).parent() {
        let _ = std::fs::create_dir_all(dir);
    }
    if let Err(e) = std::fs::write(&evidence_path, serde_json::to_string_pretty(&evidence).unwrap_or_default() + "\n") {
        println!("HARNESS-ERROR property={PROPERTY} cannot write {evidence_path}: {e}");
        return 2;
    }
    println!(
        "{PROPERTY} {tier}: {n_runs} schedules ({distinct_all} distinct, {distinct_nontrivial} non-trivial) in {wall:.1}s on {workers} workers, {steps} steps, {} violation group(s) ({} known), evidence {evidence_path}",
        groups.len(),
        known_hits.len()
    );
    if let Some(f) = unknown_lines.first() {
        for f in &unknown_lines[1..] {
            println!("also: unreported violation group with replay {f}");
        }
        println!("VIOLATION property={PROPERTY} replay={f}");
        return 1;
    }
    0
}

struct Known {
    oracle: String,
    signature: String,
    what: String,
}

fn load_known(path: &str) -> Vec<Known> {
    let Ok(text) = std::fs::read_to_string(path) else {
        return Vec::new();
    };
    let Ok(v) = serde_json::from_str::<serde_json::Value>(&text) else {
        return Vec::new();
    };
    let mut out = Vec::new();
    if let Some(fs) = v.get("findings").and_then(|f| f.as_array()) {
        for f in fs {
            let g = |k: &str| f.get(k).and_then(|x| x.as_str()).unwrap_or("").to_string();
            if g("status") == "known" && g("property") == PROPERTY {
                out.push(Known {
                    oracle: g("oracle"),
                    signature: g("signature"),
                    what: g("what"),
                });
            }
        }
    }
    out
}

// ---------------------------------------------------------------------------------------------
// replay
// ---------------------------------------------------------------------------------------------

pub fn replay_outcome(rf: &ReplayFile, verbose: bool) -> Result<(Outcome, bool), String> {
    let events: Vec<Event> = rf
        .events
        .iter()
        .map(|s| event_from_string(s).ok_or_else(|| format!("bad event {s:?}")))
        .collect::<Result<_, _>>()?;
    let plan = Arc::new(rf.plan.clone());
    let diverged = Arc::new(std::sync::atomic::AtomicBool::new(false));
    struct Wrap(Replay, Arc<std::sync::atomic::AtomicBool>);
    impl simtokio::sim::Policy for Wrap {
        fn pick(&mut self, step: u64, runnable: &[usize]) -> usize {
            let r = self.0.pick(step, runnable);
            if self.0.diverged {
                self.1.store(true, Ordering::SeqCst);
            }
            r
        }
        fn select(&mut self, task: usize, n: u32) -> u32 {
            self.0.select(task, n)
        }
    }
    let pol = Box::new(Wrap(Replay::new(events, rf.seed), diverged.clone()));
    let o = guarded_run(plan, pol, verbose)?;
    Ok((o, diverged.load(Ordering::SeqCst)))
}

fn replay(args: &[String]) -> i32 {
    let Some(path) = args.first() else {
        println!("HARNESS-ERROR usage: c47sim replay <file>");
        return 2;
    };
    let quiet = args.iter().any(|a| a == "--quiet");
    let exact = args.iter().any(|a| a == "--exact");
    let text = match std::fs::read_to_string(path) {
        Ok(t) => t,
        Err(e) => {
            println!("HARNESS-ERROR cannot read {path}: {e}");
            return 2;
        }
    };
    let rf: ReplayFile = match serde_json::from_str(&text) {
        Ok(r) => r,
        Err(e) => {
            println!("HARNESS-ERROR cannot parse {path}: {e}");
            return 2;
        }
    };
    let (o, diverged) = match replay_outcome(&rf, !quiet) {
        Ok(x) => x,
        Err(e) => {
            println!("HARNESS-ERROR replay of {path}: {e}");
            return 2;
        }
    };
    if !quiet {
        println!("replay of {path}");
        println!("  property {} oracle {} signature [{}]", rf.property, rf.oracle, rf.signature);
        println!("  seed {} ; scenario: {}", rf.seed, rf.plan.describe());
        println!("  actors source: {} (recorded with {})", actors_src(), rf.cfg.actors_src);
        println!("  {} recorded events, {} steps executed{}", rf.events.len(), o.steps, if diverged { " (schedule diverged from the recording)" } else { "" });
        for l in &o.log {
            println!("  {l}");
        }
    }
    match &o.violation {
        Some(v) if v.oracle == rf.oracle && v.signature == rf.signature => {
            if !quiet {
                println!("REPRODUCED {} [{}] at step {}: {}", v.oracle, v.signature, v.step, v.summary);
            }
            1
        }
        Some(v) => {
            if !quiet {
                println!(
                    "DIFFERENT violation {} [{}] at step {}: {} (recorded: {} [{}])",
                    v.oracle, v.signature, v.step, v.summary, rf.oracle, rf.signature
                );
            }
            // still a violation of the property; `--exact` (used for the fresh-process
            // confirmation) insists on the recorded oracle and signature
            if exact {
                3
            } else {
                1
            }
        }
        None => {
            if !quiet {
                println!("NOT REPRODUCED: the property held on this replay (run ended {:?} after {} steps)", o.end, o.steps);
            }
            0
        }
    }
}

// ---------------------------------------------------------------------------------------------
// digests (determinism self-check support)
// ---------------------------------------------------------------------------------------------

fn digests(args: &[String]) -> i32 {
    let runs: u64 = arg_val(args, "--runs").and_then(|s| s.parse().ok()).unwrap_or(64);
    let workers: usize = arg_val(args, "--workers").and_then(|s| s.parse().ok()).unwrap_or(1);
    let vseed = verif_seed();
    let gen = gen_cfg();
    let next = AtomicU64::new(0);
    let mut all: Vec<(u64, String)> = std::thread::scope(|s| {
        let hs: Vec<_> = (0..workers)
            .map(|_| {
                let gen = gen.clone();
                let next = &next;
                s.spawn(move || {
                    let mut out = Vec::new();
                    loop {
                        let i = next.fetch_add(1, Ordering::SeqCst);
                        if i >= runs {
                            break;
                        }
                        let seed = run_seed(vseed, i);
                        let plan = Arc::new(plan_for(seed, &gen));
                        let mode = mode_for(seed);
                        let pol = Box::new(Seeded::new(seed, mode));
                        let line = match guarded_run(plan, pol, false) {
                            Ok(o) => format!(
                                "{i} seed={seed} digest={:016x} steps={} tasks={} outcome={}",
                                o.digest,
                                o.steps,
                                o.tasks,
                                o.violation.map(|v| format!("{}[{}]", v.oracle, v.signature)).unwrap_or_else(|| "held".into())
                            ),
                            Err(e) => format!("{i} seed={seed} HARNESS-ERROR {e}"),
                        };
                        out.push((i, line));
                    }
                    out
                })
            })
            .collect();
        hs.into_iter().flat_map(|h| h.join().expect("worker")).collect()
    });
    all.sort_by_key(|x| x.0);
    for (_, l) in all {
        println!("{l}");
    }
    0
}

fn main() {
    let args: Vec<String> = std::env::args().skip(1).collect();
    let code = match args.first().map(|s| s.as_str()) {
        Some("batch") => batch(&args[1..]),
        Some("replay") => replay(&args[1..]),
        Some("digests") => digests(&args[1..]),
        Some("show") => {
            // print the generated scenario and a verbose trace of one run index
            let i: u64 = args.get(1).and_then(|s| s.parse().ok()).unwrap_or(0);
            let seed = run_seed(verif_seed(), i);
            let plan = Arc::new(plan_for(seed, &gen_cfg()));
            let mode = mode_for(seed);
            println!("seed {seed} mode {mode:?}\n{}", plan.describe());
            println!("{}", serde_json::to_string(&*plan).unwrap_or_default());
            match guarded_run(plan, Box::new(Seeded::new(seed, mode)), true) {
                Ok(o) => {
                    for l in &o.log {
                        println!("{l}");
                    }
                    let tail: Vec<String> = o.events.iter().rev().take(30).rev().map(event_to_string).map(|s| if s.len() > 12 { format!("{}..", &s[..12]) } else { s }).collect();
                    println!("last events: {}", tail.join(" "));
                    println!("end {:?} steps {} tasks {} violation {:?}", o.end, o.steps, o.tasks, o.violation);
                    0
                }
                Err(e) => {
                    println!("HARNESS-ERROR {e}");
                    2
                }
            }
        }
        _ => {
            println!("HARNESS-ERROR usage: c47sim batch|replay|digests|show ...");
            2
        }
    };
    std::process::exit(code);
}

#[allow(dead_code)]
fn _unused(_: Violation) {}
