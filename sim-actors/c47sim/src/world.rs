//! The simulated world around the real `kanidm_actors`: instrumented actors, holders of supervisor
//! handles, the runtime set-up, the termination driver, and the registry the oracle reads.
//! Nothing here changes `kanidm_actors`; all observations are made by the test actors and by asking
//! the executor whether a task has finished.

use crate::plan::*;
use crate::rng::Fnv;
use kanidm_actors::{
    Actor, ActorState, Runtime, RuntimeSetup, Signal, SignalHandler, SoftwareSignalSource, Supervisor,
};
use simtokio::sim;
use std::cell::RefCell;
use std::sync::Arc;

// ---------------------------------------------------------------------------------------------
// Registry
// ---------------------------------------------------------------------------------------------

#[derive(Clone, Copy, Debug, PartialEq, Eq)]
pub enum APhase {
    NotStarted,
    Setup,
    Waiting,
    Run,
    Cleanup,
    Done,
}

#[derive(Clone, Debug)]
pub struct NodeR {
    pub registered: bool,
    pub reg_seq: u64,
    pub on_exited: bool,
    pub task: usize,
    pub stop_issued: Option<u64>,
    pub stop_returned: bool,
    pub handle_dropped: bool,
}

#[derive(Clone, Debug)]
pub struct ActorR {
    pub registered: bool,
    pub reg_seq: u64,
    /// registered on a supervisor whose task had already exited
    pub on_exited: bool,
    pub task: usize,
    pub phase: APhase,
    pub self_stopped: bool,
    pub cleanup_started: bool,
    pub cleanup_done: bool,
    pub dropped: bool,
    pub runs: u32,
}

#[derive(Clone, Debug, serde::Serialize, serde::Deserialize, PartialEq)]
pub struct Violation {
    pub oracle: String,
    pub signature: String,
    pub step: u64,
    pub summary: String,
}

macro_rules! counters {
    ($($name:ident => $label:expr),* $(,)?) => {
        #[allow(non_camel_case_types)]
        #[derive(Clone, Copy, Debug, PartialEq, Eq)]
        #[repr(usize)]
        pub enum Ctr { $($name),* }
        pub const CTR_LABELS: &[&str] = &[$($label),*];
    };
}

// Counters whose label starts with "fault:" are reported under faults_fired, the others under probes.
counters! {
    F_StopSub => "fault:stop() on a subordinate supervisor",
    F_Terminate => "fault:runtime terminated by Terminate signal",
    F_Interrupt => "fault:runtime terminated by Interrupt signal",
    F_SenderDrop => "fault:runtime terminated by dropping every signal sender",
    F_HandleDropped => "fault:supervisor handle dropped without stop() while its task was alive",
    F_LateActor => "fault:actor registered while a stop covering it was in progress",
    F_LateSub => "fault:subordinate registered while a stop covering it was in progress",
    F_RegOnExited => "fault:actor or subordinate registered on a supervisor whose task had exited",
    F_NoiseSignal => "fault:non-terminating signal delivered (hangup/usr1/usr2/alarm)",
    P_StopNotStarted => "stop issued while an actor under it had not been polled yet",
    P_StopInSetup => "stop issued while an actor under it was inside setup()",
    P_StopWaiting => "stop issued while an actor under it was waiting in state()",
    P_StopInRun => "stop issued while an actor under it was inside run()",
    P_StopInCleanup => "stop issued while an actor under it was already inside cleanup()",
    P_StopAfterDone => "stop issued after an actor under it had finished by itself",
    P_StopOnExited => "stop() called on a supervisor whose task had already exited",
    P_StopNested => "stop issued while a stop of an ancestor (or the runtime) was in flight",
    P_StopWithSubs => "stop issued on a supervisor that had live subordinate supervisors",
    P_StopDepth1 => "stop() on a depth-1 supervisor",
    P_StopDepth2 => "stop() on a depth-2 supervisor",
    P_StopDepth3 => "stop() on a depth-3 supervisor",
    P_DynActor => "actor registered dynamically before any covering stop",
    P_DynSub => "subordinate registered dynamically before any covering stop",
    P_SelfStop => "actor finished by itself (state() returned Stop)",
    P_RunCalls => "run() invocations",
    P_ScriptInSetup => "holder script executed inside setup()",
    P_ScriptInRun => "holder script executed inside run()",
    P_ScriptInCleanup => "holder script executed inside cleanup()",
    P_OracleStop => "oracle evaluated at return of stop()",
    P_OracleExec => "oracle evaluated at return of Runtime::exec",
    P_OracleCollateral => "collateral-stop oracle evaluated at start of a cleanup()",
    P_ActorsCheckedStopped => "actors verified stopped-and-cleaned at a stop return",
    P_SubsCheckedStopped => "supervisor tasks verified finished at a stop return",
    P_BystandersAlive => "actors outside a stopped subtree verified still running at its stop return",
    P_HandlerCalls => "signal handler callbacks run",
    P_BudgetYield => "task polls that ended with tokio's cooperative budget exhausted (spinning supervisor)",
    P_IdleJumps => "simulated clock jumps (nothing runnable, timer pending)",
}
pub const N_CTR: usize = CTR_LABELS.len();

pub struct Reg {
    pub plan: Arc<Plan>,
    pub nodes: Vec<NodeR>,
    pub actors: Vec<ActorR>,
    pub seq: u64,
    pub root_stop_issued: Option<u64>,
    pub exec_returned: bool,
    pub exec_task: usize,
    pub free_tasks: Vec<usize>,
    pub violation: Option<Violation>,
    pub harness_error: Option<String>,
    pub ctr: [u64; N_CTR],
    pub trace: Fnv,
    /// some oracle was evaluated on a stop that had at least one live actor under it
    pub nontrivial: bool,
    pub log: Option<Vec<String>>,
    /// consecutive steps (with no timer pending) whose poll ended with the cooperative budget
    /// used up, i.e. in which nothing but spinning tasks ran
    pub spin_streak: u64,
    pub spin_seen: (u64, u64),
    pub spin_livelock: bool,
}

thread_local! {
    static REG: RefCell<Option<Reg>> = const { RefCell::new(None) };
}

pub fn reg_install(plan: Arc<Plan>, verbose: bool) {
    let nodes = plan
        .nodes
        .iter()
        .map(|_| NodeR {
            registered: false,
            reg_seq: 0,
            on_exited: false,
            task: usize::MAX,
            stop_issued: None,
            stop_returned: false,
            handle_dropped: false,
        })
        .collect();
    let actors = plan
        .actors
        .iter()
        .map(|_| ActorR {
            registered: false,
            reg_seq: 0,
            on_exited: false,
            task: usize::MAX,
            phase: APhase::NotStarted,
            self_stopped: false,
            cleanup_started: false,
            cleanup_done: false,
            dropped: false,
            runs: 0,
        })
        .collect();
    let reg = Reg {
        plan,
        nodes,
        actors,
        seq: 0,
        root_stop_issued: None,
        exec_returned: false,
        exec_task: usize::MAX,
        free_tasks: Vec::new(),
        violation: None,
        harness_error: None,
        ctr: [0; N_CTR],
        trace: Fnv::default(),
        nontrivial: false,
        log: if verbose { Some(Vec::new()) } else { None },
        spin_streak: 0,
        spin_seen: (0, 0),
        spin_livelock: false,
    };
    REG.with(|r| *r.borrow_mut() = Some(reg));
}

pub fn reg_take() -> Option<Reg> {
    REG.with(|r| r.borrow_mut().take())
}

/// Access the registry; a no-op (returns None) when no run is installed, which happens when
/// leftover futures are dropped after the run has been torn down.
fn with<R>(f: impl FnOnce(&mut Reg) -> R) -> Option<R> {
    REG.with(|r| r.borrow_mut().as_mut().map(f))
}

impl Reg {
    fn ev(&mut self, tag: u64, a: u64, b: u64) {
        self.seq += 1;
        self.trace.word(sim::steps());
        self.trace.word(tag);
        self.trace.word(a);
        self.trace.word(b);
    }
    fn say(&mut self, f: impl FnOnce() -> String) {
        if self.log.is_some() {
            let line = format!("[step {:>4} clock {:>4}] {}", sim::steps(), sim::clock(), f());
            if let Some(l) = self.log.as_mut() {
                l.push(line);
            }
        }
    }
    fn bump(&mut self, c: Ctr) {
        self.ctr[c as usize] += 1;
    }
    fn add(&mut self, c: Ctr, n: u64) {
        self.ctr[c as usize] += n;
    }
    fn violate(&mut self, oracle: &str, signature: String, summary: String) {
        if self.violation.is_none() {
            self.say(|| format!("VIOLATION {oracle} [{signature}] {summary}"));
            self.violation = Some(Violation {
                oracle: oracle.to_string(),
                signature,
                step: sim::steps(),
                summary,
            });
            sim::halt();
        }
    }
    fn harness(&mut self, msg: String) {
        if self.harness_error.is_none() {
            self.harness_error = Some(msg);
            sim::halt();
        }
    }
    /// Sequence number of the earliest stop already issued that covers `node` (itself, an
    /// ancestor, or the runtime).
    fn covering_stop(&self, node: usize) -> Option<u64> {
        let mut best = self.root_stop_issued;
        let mut n = Some(node);
        while let Some(x) = n {
            if let Some(s) = self.nodes[x].stop_issued {
                best = Some(best.map_or(s, |b| b.min(s)));
            }
            n = self.plan.nodes[x].parent;
        }
        best
    }
    fn node_label(&self, n: usize) -> String {
        if n == 0 {
            "primary supervisor".to_string()
        } else {
            format!("supervisor n{} (depth {})", n, self.plan.depth(n))
        }
    }
}

fn reg_node_registered(node: usize, parent: usize, task: Option<usize>) {
    with(|r| {
        let task = match task {
            Some(t) if sim::task_kind(t).contains("Supervisor") && !sim::task_kind(t).contains("SimActor") => t,
            other => {
                r.harness(format!(
                    "cannot identify the supervisor task of node {node}: last spawned = {:?} kind = {:?}",
                    other,
                    other.map(sim::task_kind)
                ));
                return;
            }
        };
        let covering = if node == 0 { None } else { r.covering_stop(parent) };
        // "on an exited supervisor" is inherited: a subordinate created under a supervisor whose
        // task is gone (or that itself hangs off such a supervisor) is not connected to the tree
        let on_exited = node != 0 && (sim::is_finished(r.nodes[parent].task) || r.nodes[parent].on_exited);
        r.ev(1, node as u64, task as u64);
        let seq = r.seq;
        let n = &mut r.nodes[node];
        n.registered = true;
        n.reg_seq = seq;
        n.task = task;
        n.on_exited = on_exited;
        if r.plan.nodes[node].dynamic {
            if covering.is_some() {
                r.bump(Ctr::F_LateSub);
            } else {
                r.bump(Ctr::P_DynSub);
            }
            if on_exited {
                r.bump(Ctr::F_RegOnExited);
            }
        }
        r.say(|| {
            format!(
                "registered supervisor n{node} under n{parent} (task t{task}){}{}",
                if covering.is_some() { " DURING a covering stop" } else { "" },
                if on_exited { " on an EXITED supervisor" } else { "" }
            )
        });
    });
}

fn reg_actor_registered(actor: usize, task: usize) {
    with(|r| {
        let node = r.plan.actors[actor].node;
        let covering = r.covering_stop(node);
        let on_exited = sim::is_finished(r.nodes[node].task) || r.nodes[node].on_exited;
        r.ev(2, actor as u64, task as u64);
        let seq = r.seq;
        let a = &mut r.actors[actor];
        a.registered = true;
        a.reg_seq = seq;
        a.task = task;
        a.on_exited = on_exited;
        if r.plan.actors[actor].dynamic {
            if covering.is_some() {
                r.bump(Ctr::F_LateActor);
            } else {
                r.bump(Ctr::P_DynActor);
            }
            if on_exited {
                r.bump(Ctr::F_RegOnExited);
            }
        }
        r.say(|| {
            format!(
                "registered actor a{actor} on n{node} (task t{task}){}{}",
                if covering.is_some() { " DURING a covering stop" } else { "" },
                if on_exited { " on an EXITED supervisor" } else { "" }
            )
        });
    });
}

fn probe_stop_issue(r: &mut Reg, node: usize) {
    // phases of the actors under the node at the moment the stop is issued
    let mut live_actor = false;
    for a in 0..r.actors.len() {
        if r.actors[a].registered && r.plan.under(r.plan.actors[a].node, node) {
            let c = match r.actors[a].phase {
                APhase::NotStarted => Ctr::P_StopNotStarted,
                APhase::Setup => Ctr::P_StopInSetup,
                APhase::Waiting => Ctr::P_StopWaiting,
                APhase::Run => Ctr::P_StopInRun,
                APhase::Cleanup => Ctr::P_StopInCleanup,
                APhase::Done => Ctr::P_StopAfterDone,
            };
            if r.actors[a].phase != APhase::Done {
                live_actor = true;
            }
            r.bump(c);
        }
    }
    let subs = (0..r.nodes.len())
        .filter(|&m| m != node && r.nodes[m].registered && r.plan.under(m, node) && !sim::is_finished(r.nodes[m].task))
        .count();
    if subs > 0 {
        r.bump(Ctr::P_StopWithSubs);
    }
    if live_actor {
        r.nontrivial = true;
    }
}

fn reg_stop_issued(node: usize) {
    with(|r| {
        if r.covering_stop(node).is_some() {
            r.bump(Ctr::P_StopNested);
        }
        if sim::is_finished(r.nodes[node].task) {
            r.bump(Ctr::P_StopOnExited);
        }
        r.bump(Ctr::F_StopSub);
        match r.plan.depth(node) {
            1 => r.bump(Ctr::P_StopDepth1),
            2 => r.bump(Ctr::P_StopDepth2),
            _ => r.bump(Ctr::P_StopDepth3),
        }
        probe_stop_issue(r, node);
        r.ev(3, node as u64, 0);
        r.nodes[node].stop_issued = Some(r.seq);
        r.say(|| format!("stop() issued on n{node}"));
    });
}

fn reg_root_stop_issued(kind: TermK) {
    with(|r| {
        r.bump(match kind {
            TermK::Terminate => Ctr::F_Terminate,
            TermK::Interrupt => Ctr::F_Interrupt,
            TermK::DropSender => Ctr::F_SenderDrop,
        });
        probe_stop_issue(r, 0);
        r.ev(4, kind as u64, 0);
        r.root_stop_issued = Some(r.seq);
        r.say(|| format!("runtime termination issued ({kind:?})"));
    });
}

/// THE ORACLE, evaluated in the same poll in which `stop().await` / `Runtime::exec` returned.
fn check_stopped(r: &mut Reg, node: usize, via: &str, issued_seq: u64) {
    if r.violation.is_some() {
        return;
    }
    // Category of the entity that was left behind:
    //   registered-before-stop          the core case of the property
    //   registered-during-stop          registered after this stop had been issued, before it returned
    //   registered-on-exited-supervisor registered on a supervisor whose own task (or that of a
    //                                   supervisor above it) had already exited
    let class = |reg_seq: u64, on_exited: bool| {
        if on_exited {
            "registered-on-exited-supervisor"
        } else if reg_seq < issued_seq {
            "registered-before-stop"
        } else {
            "registered-during-stop"
        }
    };
    // scan entities registered before the stop first, so that the most serious class is reported
    for pass in 0..3 {
        let want = ["registered-before-stop", "registered-during-stop", "registered-on-exited-supervisor"][pass];
        for a in 0..r.actors.len() {
            let ar = &r.actors[a];
            if !ar.registered || !r.plan.under(r.plan.actors[a].node, node) {
                continue;
            }
            if class(ar.reg_seq, ar.on_exited) != want {
                continue;
            }
            let what = if !sim::is_finished(ar.task) {
                Some("actor-still-running")
            } else if !ar.cleanup_done {
                Some("actor-finished-without-cleanup")
            } else {
                None
            };
            if let Some(what) = what {
                let sig = format!("what={what}; class={want}");
                let summary = format!(
                    "{via} on {} returned but actor a{a} (registered on n{}, task t{}, phase {:?}, cleanup started={} done={}, task finished={}) was not stopped",
                    r.node_label(node),
                    r.plan.actors[a].node,
                    ar.task,
                    ar.phase,
                    ar.cleanup_started,
                    ar.cleanup_done,
                    sim::is_finished(ar.task)
                );
                r.violate("stop-incomplete", sig, summary);
                return;
            }
            r.add(Ctr::P_ActorsCheckedStopped, 1);
        }
        for m in 0..r.nodes.len() {
            let nr = &r.nodes[m];
            if !nr.registered || !r.plan.under(m, node) {
                continue;
            }
            if class(nr.reg_seq, nr.on_exited) != want {
                continue;
            }
            if !sim::is_finished(nr.task) {
                let sig = format!("what=supervisor-task-running; class={want}");
                let summary = format!(
                    "{via} on {} returned but the task t{} of {} was still running",
                    r.node_label(node),
                    nr.task,
                    r.node_label(m)
                );
                r.violate("stop-incomplete", sig, summary);
                return;
            }
            r.add(Ctr::P_SubsCheckedStopped, 1);
        }
    }
    // "nothing outside the stopped subtree was stopped by it": every actor outside that has no
    // reason of its own to stop must still be running.
    for a in 0..r.actors.len() {
        let ar = &r.actors[a];
        let an = r.plan.actors[a].node;
        if !ar.registered || r.plan.under(an, node) {
            continue;
        }
        if ar.self_stopped || r.covering_stop(an).is_some() {
            continue;
        }
        if ar.cleanup_started || sim::is_finished(ar.task) {
            let sig = "what=bystander-stopped".to_string();
            let summary = format!(
                "{via} on {} returned and actor a{a} on n{an}, outside that subtree and covered by no stop, has been stopped",
                r.node_label(node)
            );
            r.violate("collateral-stop", sig, summary);
            return;
        }
        r.add(Ctr::P_BystandersAlive, 1);
    }
}

fn reg_stop_returned(node: usize) {
    with(|r| {
        r.ev(5, node as u64, 0);
        r.nodes[node].stop_returned = true;
        r.say(|| format!("stop() on n{node} returned"));
        r.bump(Ctr::P_OracleStop);
        let issued = r.nodes[node].stop_issued.unwrap_or(0);
        check_stopped(r, node, "stop()", issued);
    });
}

fn reg_exec_returned() {
    with(|r| {
        r.ev(6, 0, 0);
        r.exec_returned = true;
        r.say(|| "Runtime::exec returned".to_string());
        r.bump(Ctr::P_OracleExec);
        // exec can only return through a terminating signal in this simulation
        let issued = r.root_stop_issued.unwrap_or(u64::MAX);
        check_stopped(r, 0, "Runtime::exec", issued);
    });
}

fn reg_phase(actor: usize, phase: APhase) {
    with(|r| {
        r.ev(7, actor as u64, phase as u64);
        r.actors[actor].phase = phase;
        if phase == APhase::Run {
            r.actors[actor].runs += 1;
            r.bump(Ctr::P_RunCalls);
        }
    });
}

fn reg_self_stopped(actor: usize) {
    with(|r| {
        r.ev(8, actor as u64, 0);
        r.actors[actor].self_stopped = true;
        r.bump(Ctr::P_SelfStop);
        r.say(|| format!("actor a{actor} state() returned Stop"));
    });
}

fn reg_cleanup_start(actor: usize) {
    with(|r| {
        r.ev(9, actor as u64, 0);
        r.actors[actor].cleanup_started = true;
        r.actors[actor].phase = APhase::Cleanup;
        r.say(|| format!("actor a{actor} cleanup() started"));
        // collateral-stop oracle: an actor may only be stopped by its own decision or by a stop
        // of its supervisor, an ancestor of it, or the runtime.
        r.bump(Ctr::P_OracleCollateral);
        let node = r.plan.actors[actor].node;
        if !r.actors[actor].self_stopped && r.covering_stop(node).is_none() {
            let summary = format!(
                "actor a{actor} on n{node} was stopped although neither its supervisor, an ancestor nor the runtime was being stopped"
            );
            r.violate("collateral-stop", "what=stopped-without-cause".to_string(), summary);
        }
    });
}

fn reg_cleanup_done(actor: usize) {
    with(|r| {
        r.ev(10, actor as u64, 0);
        r.actors[actor].cleanup_done = true;
        r.actors[actor].phase = APhase::Done;
        r.say(|| format!("actor a{actor} cleanup() completed"));
    });
}

fn reg_actor_dropped(actor: usize) {
    with(|r| {
        r.ev(11, actor as u64, 0);
        r.actors[actor].dropped = true;
    });
}

fn reg_handle_dropped(node: usize) {
    with(|r| {
        r.ev(12, node as u64, 0);
        r.nodes[node].handle_dropped = true;
        if r.nodes[node].registered && !sim::is_finished(r.nodes[node].task) {
            r.bump(Ctr::F_HandleDropped);
        }
        r.say(|| format!("handle of n{node} dropped without stop()"));
    });
}

fn reg_bump(c: Ctr) {
    with(|r| r.bump(c));
}

// ---------------------------------------------------------------------------------------------
// Held supervisor handles and scripts
// ---------------------------------------------------------------------------------------------

struct Held {
    node: usize,
    sup: Option<Supervisor>,
}
impl Drop for Held {
    fn drop(&mut self) {
        if self.sup.is_some() {
            reg_handle_dropped(self.node);
        }
    }
}

async fn run_ops(plan: Arc<Plan>, ops: Vec<Op>, held: &mut Vec<Held>) {
    for op in ops {
        match op {
            Op::Nop => {}
            Op::Wait(t) => sim::until(t).await,
            Op::Yield(n) => sim::yield_n(n as u32).await,
            Op::Spawn { node, actor } => {
                if !plan.actor_on(actor) {
                    continue;
                }
                let Some(i) = held.iter().position(|h| h.node == node && h.sup.is_some()) else {
                    continue;
                };
                let obj = SimActor::new(actor, plan.clone(), Vec::new());
                if let Some(sup) = held[i].sup.as_mut() {
                    let jh = sup.spawn(obj);
                    reg_actor_registered(actor, jh.sim_id());
                }
            }
            Op::Sub { node, new } => {
                if !plan.node_on(new) {
                    continue;
                }
                let Some(i) = held.iter().position(|h| h.node == node && h.sup.is_some()) else {
                    continue;
                };
                let before = sim::task_count();
                let s = match held[i].sup.as_mut() {
                    Some(sup) => sup.subordinate().await,
                    None => continue,
                };
                let task = if sim::task_count() == before + 1 { sim::last_spawned() } else { None };
                reg_node_registered(new, node, task);
                held.push(Held { node: new, sup: Some(s) });
            }
            Op::Stop(node) => {
                let Some(i) = held.iter().position(|h| h.node == node && h.sup.is_some()) else {
                    continue;
                };
                let mut h = held.remove(i);
                if let Some(sup) = h.sup.take() {
                    reg_stop_issued(node);
                    sup.stop().await;
                    reg_stop_returned(node);
                }
            }
            Op::Drop(node) => {
                if let Some(i) = held.iter().position(|h| h.node == node) {
                    drop(held.remove(i));
                }
            }
        }
    }
}

// ---------------------------------------------------------------------------------------------
// The instrumented actor
// ---------------------------------------------------------------------------------------------

pub struct SimActor {
    id: usize,
    plan: Arc<Plan>,
    delivered: usize,
    script_done: bool,
    held: Vec<Held>,
}

impl SimActor {
    fn new(id: usize, plan: Arc<Plan>, held: Vec<Held>) -> Self {
        SimActor {
            id,
            plan,
            delivered: 0,
            script_done: false,
            held,
        }
    }
    async fn script(&mut self, phase: Phase) {
        if self.script_done {
            return;
        }
        let ops = match &self.plan.actors[self.id].script {
            Some((p, ops)) if *p == phase => ops.clone(),
            _ => return,
        };
        self.script_done = true;
        reg_bump(match phase {
            Phase::Setup => Ctr::P_ScriptInSetup,
            Phase::Run => Ctr::P_ScriptInRun,
            Phase::Cleanup => Ctr::P_ScriptInCleanup,
        });
        run_ops(self.plan.clone(), ops, &mut self.held).await;
    }
}

impl Drop for SimActor {
    fn drop(&mut self) {
        reg_actor_dropped(self.id);
    }
}

impl Actor for SimActor {
    type Message = u32;

    async fn setup(&mut self) {
        reg_phase(self.id, APhase::Setup);
        sim::yield_n(self.plan.actors[self.id].setup_y as u32).await;
        self.script(Phase::Setup).await;
        reg_phase(self.id, APhase::Waiting);
    }

    async fn state(&mut self) -> ActorState<u32> {
        let p = &self.plan.actors[self.id];
        sim::yield_n(p.state_y as u32).await;
        let (ready, then_stop) = match &p.state {
            StateP::Pend => (false, false),
            StateP::Ready { k, then_stop } => (self.delivered < *k as usize, *then_stop),
            StateP::Timed { at, then_stop } => {
                if let Some(&t) = at.get(self.delivered) {
                    sim::until(t).await;
                    (true, *then_stop)
                } else {
                    (false, *then_stop)
                }
            }
        };
        if ready {
            self.delivered += 1;
            ActorState::Ready(self.delivered as u32)
        } else if then_stop {
            reg_self_stopped(self.id);
            ActorState::Stop
        } else {
            std::future::pending::<()>().await;
            ActorState::Stop
        }
    }

    async fn run(&mut self, _msg: u32) {
        reg_phase(self.id, APhase::Run);
        sim::yield_n(self.plan.actors[self.id].run_y as u32).await;
        self.script(Phase::Run).await;
        reg_phase(self.id, APhase::Waiting);
    }

    async fn cleanup(&mut self) {
        reg_cleanup_start(self.id);
        sim::yield_n(self.plan.actors[self.id].cleanup_y as u32).await;
        self.script(Phase::Cleanup).await;
        reg_cleanup_done(self.id);
    }
}

// ---------------------------------------------------------------------------------------------
// Runtime set-up, signal handler, termination driver
// ---------------------------------------------------------------------------------------------

struct Ctx {
    plan: Arc<Plan>,
}

impl RuntimeSetup for Ctx {
    type Error = ();

    async fn setup(self, root: &mut Supervisor) -> Result<(), ()> {
        let plan = self.plan;
        // the primary supervisor's task is the one exec spawned just before calling us
        reg_node_registered(0, 0, sim::last_spawned());
        let n = plan.nodes.len();
        let mut handles: Vec<Option<Held>> = (0..n).map(|_| None).collect();
        // subordinates, parents first
        for i in 1..n {
            let np = &plan.nodes[i];
            if np.dynamic || !plan.node_on(i) {
                continue;
            }
            let parent = np.parent.unwrap_or(0);
            let before = sim::task_count();
            let s = if parent == 0 {
                root.subordinate().await
            } else {
                match handles[parent].as_mut().and_then(|h| h.sup.as_mut()) {
                    Some(p) => p.subordinate().await,
                    None => continue,
                }
            };
            let task = if sim::task_count() == before + 1 { sim::last_spawned() } else { None };
            reg_node_registered(i, parent, task);
            handles[i] = Some(Held { node: i, sup: Some(s) });
            sim::yield_n(plan.setup_y as u32).await;
        }
        // static actors, deepest supervisors first: an actor that holds the handle of a
        // subordinate is registered at a strict ancestor of it, i.e. later in this order, when
        // the subordinate already has all its own actors.
        for node in (0..n).rev() {
            if plan.nodes[node].dynamic || !plan.node_on(node) {
                continue;
            }
            for a in 0..plan.actors.len() {
                let ap = &plan.actors[a];
                if ap.node != node || ap.dynamic || !plan.actor_on(a) {
                    continue;
                }
                let mut held = Vec::new();
                for m in 1..n {
                    if plan.nodes[m].holder == Holder::Actor(a) {
                        if let Some(h) = handles[m].take() {
                            held.push(h);
                        }
                    }
                }
                let obj = SimActor::new(a, plan.clone(), held);
                let jh = if node == 0 {
                    root.spawn(obj)
                } else {
                    match handles[node].as_mut().and_then(|h| h.sup.as_mut()) {
                        Some(s) => s.spawn(obj),
                        None => continue,
                    }
                };
                reg_actor_registered(a, jh.sim_id());
            }
        }
        // free holder tasks
        for (d, dp) in plan.drivers.iter().enumerate() {
            if !dp.enabled {
                continue;
            }
            let mut held = Vec::new();
            for m in 1..n {
                if plan.nodes[m].holder == Holder::Driver(d) {
                    if let Some(h) = handles[m].take() {
                        held.push(h);
                    }
                }
            }
            let plan2 = plan.clone();
            let ops = dp.ops.clone();
            let jh = simtokio::spawn(async move {
                let mut held = held;
                run_ops(plan2, ops, &mut held).await;
            });
            with(|r| r.free_tasks.push(jh.sim_id()));
        }
        // whatever is left (DropAtSetup, holders that were disabled) is dropped here, unstopped
        drop(handles);
        Ok(())
    }
}

struct Handler {
    y: u8,
}
impl Handler {
    async fn cb(&mut self) {
        reg_bump(Ctr::P_HandlerCalls);
        sim::yield_n(self.y as u32).await;
    }
}
impl SignalHandler for Handler {
    async fn terminate(&mut self) {
        self.cb().await
    }
    async fn interrupt(&mut self) {
        self.cb().await
    }
    async fn hangup(&mut self) {
        self.cb().await
    }
    async fn user_defined1(&mut self) {
        self.cb().await
    }
    async fn user_defined2(&mut self) {
        self.cb().await
    }
    async fn alarm(&mut self) {
        self.cb().await
    }
}

/// Spawn the root tasks of a run: the termination driver and `Runtime::exec`.
pub fn boot(plan: Arc<Plan>) {
    let (source, tx) = SoftwareSignalSource::new();
    let term = plan.term.clone();
    let t = simtokio::spawn(async move {
        for (at, k) in term.noise.iter().copied() {
            if at > term.at {
                break;
            }
            sim::until(at).await;
            let sig = match k {
                SigK::Hangup => Signal::Hangup,
                SigK::User1 => Signal::UserDefined1,
                SigK::User2 => Signal::UserDefined2,
                SigK::Alarm => Signal::Alarm,
            };
            if tx.send(sig).await.is_ok() {
                reg_bump(Ctr::F_NoiseSignal);
            }
        }
        sim::until(term.at).await;
        reg_root_stop_issued(term.kind);
        match term.kind {
            TermK::Terminate => {
                let _ = tx.send(Signal::Terminate).await;
            }
            TermK::Interrupt => {
                let _ = tx.send(Signal::Interrupt).await;
            }
            TermK::DropSender => drop(tx),
        }
    });
    with(|r| r.free_tasks.push(t.sim_id()));
    let handler = Handler { y: plan.term.handler_y };
    let ctx = Ctx { plan };
    let e = simtokio::spawn(async move {
        let _ = Runtime::new().exec(ctx, handler, source).await;
        reg_exec_returned();
    });
    with(|r| r.exec_task = e.sim_id());
}

pub const SPIN_LIMIT: u64 = 400;

pub fn spin_livelock() -> bool {
    with(|r| r.spin_livelock).unwrap_or(false)
}

/// The scenario is over once `Runtime::exec` has returned (and been checked) and every free task
/// (termination driver, handle holders) has run its script to the end. What may still be alive
/// then -- actors registered after the runtime stopped -- is outside the property.
pub fn scenario_complete() -> bool {
    with(|r| {
        // livelock short-cut: SPIN_LIMIT consecutive steps in which only spinning tasks ran
        // (every poll exhausted tokio's budget) while no timer was pending. Any other woken task
        // would have been picked in between (uniform choice, or PCT which demotes a task that
        // yields), so nothing else is runnable and nothing can become runnable.
        let (steps, exh) = (sim::steps(), sim::budget_exhausted_polls());
        let (ds, de) = (steps - r.spin_seen.0, exh - r.spin_seen.1);
        r.spin_seen = (steps, exh);
        if ds > 0 && ds == de && sim::timers_pending() == 0 {
            r.spin_streak += ds;
        } else if ds > 0 {
            r.spin_streak = 0;
        }
        if r.spin_streak >= SPIN_LIMIT {
            r.spin_livelock = true;
            return true;
        }
        r.exec_returned
            && sim::is_finished(r.exec_task)
            && r.free_tasks.iter().all(|&t| sim::is_finished(t))
    })
    .unwrap_or(true)
}

/// Liveness oracle, evaluated when the executor is idle (`deadlock`) or out of budget (`livelock`).
pub fn check_liveness(oracle: &str) {
    with(|r| {
        if r.violation.is_some() || r.harness_error.is_some() {
            return;
        }
        let exec_done = r.exec_returned && sim::is_finished(r.exec_task);
        let stuck_free: Vec<usize> = r.free_tasks.iter().copied().filter(|&t| !sim::is_finished(t)).collect();
        if exec_done && stuck_free.is_empty() {
            return;
        }
        // which stops are blocked, and on what kind of entity
        let mut blocked: Vec<&str> = Vec::new();
        let mut detail: Vec<String> = Vec::new();
        let mut stops: Vec<(usize, u64)> = Vec::new();
        if let (Some(s), false) = (r.root_stop_issued, r.exec_returned) {
            blocked.push("Runtime::exec");
            stops.push((0, s));
        }
        for n in 1..r.nodes.len() {
            if let (Some(s), false) = (r.nodes[n].stop_issued, r.nodes[n].stop_returned) {
                if !blocked.contains(&"stop()") {
                    blocked.push("stop()");
                }
                stops.push((n, s));
            }
        }
        // Unfinished entities under the blocked stops. Those registered before the stop on a live
        // supervisor may merely be waiting for the others, so the category is decided by the
        // presence of the irregular ones.
        let (mut during, mut exited, mut before) = (false, false, false);
        for &(node, issued) in &stops {
            for a in 0..r.actors.len() {
                let ar = &r.actors[a];
                if ar.registered && r.plan.under(r.plan.actors[a].node, node) && !sim::is_finished(ar.task) {
                    let c = if ar.on_exited {
                        exited = true;
                        "on-exited-supervisor"
                    } else if ar.reg_seq < issued {
                        before = true;
                        "before-stop"
                    } else {
                        during = true;
                        "during-stop"
                    };
                    detail.push(format!("a{a} on n{} phase {:?} ({c})", r.plan.actors[a].node, ar.phase));
                }
            }
            for m in 0..r.nodes.len() {
                let nr = &r.nodes[m];
                if m != node && nr.registered && r.plan.under(m, node) && !sim::is_finished(nr.task) {
                    let c = if nr.on_exited {
                        exited = true;
                        "on-exited-supervisor"
                    } else if nr.reg_seq < issued {
                        before = true;
                        "before-stop"
                    } else {
                        during = true;
                        "during-stop"
                    };
                    detail.push(format!("supervisor n{m} ({c})"));
                }
            }
        }
        let _ = before;
        detail.sort();
        detail.dedup();
        let class = if during {
            "registered-during-stop"
        } else if exited {
            "registered-on-exited-supervisor"
        } else {
            "registered-before-stop"
        };
        let sig = format!("what=stop-never-returns; class={class}");
        let blocked = if blocked.is_empty() { "nothing".to_string() } else { blocked.join(" and ") };
        let summary = format!(
            "{blocked} never returned; {}: exec returned={}, {} free task(s) unfinished, blocked stop(s) on nodes {:?}, unfinished under them: [{}]",
            if oracle == "deadlock" { "no task is runnable, no timer pending" } else { "only spinning tasks ran for hundreds of consecutive steps (or the step budget ran out)" },
            r.exec_returned,
            stuck_free.len(),
            stops.iter().map(|s| s.0).collect::<Vec<_>>(),
            detail.join(", ")
        );
        r.violate(oracle, sig, summary);
    });
}

/// Fold end-of-run executor facts into the registry (digest and probes).
pub fn finalize(end: u64) {
    with(|r| {
        r.add(Ctr::P_IdleJumps, sim::idle_jumps());
        r.add(Ctr::P_BudgetYield, sim::budget_exhausted_polls());
        r.trace.word(end);
        r.trace.word(sim::steps());
        r.trace.word(sim::clock());
    });
}
