//! Delta debugging of a violating run: first the scenario (disable drivers, actors, supervisors,
//! script operations, signals, yields while the same oracle+signature still fires under the run's
//! seeded schedule), then the schedule itself (drop chunks of events; an event whose task is not
//! runnable is skipped and the tail is completed by a fixed seeded policy; a candidate is accepted
//! when the same oracle+signature fires with a strictly shorter executed schedule).

use crate::plan::*;
use crate::policy::{event_to_string, Event, Replay, Seeded};
use crate::run::Outcome;
use crate::{guarded_run, ReplayFile, RunCfg, ViolationBrief, PROPERTY};
use serde_json::json;
use std::sync::Arc;

fn hits(o: &Outcome, oracle: &str, signature: &str) -> bool {
    matches!(&o.violation, Some(v) if v.oracle == oracle && v.signature == signature)
}

fn try_seeded(plan: &Plan, seed: u64, cfg: &RunCfg) -> Result<Outcome, String> {
    guarded_run(Arc::new(plan.clone()), Box::new(Seeded::new(seed, cfg.mode.clone())), false)
}

fn try_replay(plan: &Plan, seed: u64, events: &[Event]) -> Result<Outcome, String> {
    guarded_run(Arc::new(plan.clone()), Box::new(Replay::new(events.to_vec(), seed)), false)
}

/// All single-step simplifications of a plan.
fn candidates(p: &Plan) -> Vec<Plan> {
    let mut out = Vec::new();
    for d in 0..p.drivers.len() {
        if p.drivers[d].enabled {
            let mut q = p.clone();
            q.drivers[d].enabled = false;
            out.push(q);
        }
    }
    for n in (1..p.nodes.len()).rev() {
        if p.nodes[n].enabled {
            let mut q = p.clone();
            q.nodes[n].enabled = false;
            out.push(q);
        }
    }
    for a in 0..p.actors.len() {
        if p.actors[a].enabled {
            let mut q = p.clone();
            q.actors[a].enabled = false;
            out.push(q);
        }
    }
    for d in 0..p.drivers.len() {
        if !p.drivers[d].enabled {
            continue;
        }
        for i in 0..p.drivers[d].ops.len() {
            if p.drivers[d].ops[i] != Op::Nop {
                let mut q = p.clone();
                q.drivers[d].ops[i] = Op::Nop;
                out.push(q);
            }
        }
    }
    for a in 0..p.actors.len() {
        if !p.actors[a].enabled {
            continue;
        }
        if let Some((_, ops)) = &p.actors[a].script {
            for i in 0..ops.len() {
                if ops[i] != Op::Nop {
                    let mut q = p.clone();
                    if let Some((_, o)) = q.actors[a].script.as_mut() {
                        o[i] = Op::Nop;
                    }
                    out.push(q);
                }
            }
        }
        let ap = &p.actors[a];
        for f in 0..4 {
            let v = [ap.setup_y, ap.state_y, ap.run_y, ap.cleanup_y][f];
            if v != 0 {
                let mut q = p.clone();
                match f {
                    0 => q.actors[a].setup_y = 0,
                    1 => q.actors[a].state_y = 0,
                    2 => q.actors[a].run_y = 0,
                    _ => q.actors[a].cleanup_y = 0,
                }
                out.push(q);
            }
        }
        if ap.script.is_none() && ap.state != StateP::Pend {
            let mut q = p.clone();
            q.actors[a].state = StateP::Pend;
            out.push(q);
        }
    }
    for i in 0..p.term.noise.len() {
        let mut q = p.clone();
        q.term.noise.remove(i);
        out.push(q);
    }
    if p.term.handler_y != 0 {
        let mut q = p.clone();
        q.term.handler_y = 0;
        out.push(q);
    }
    // earlier simulated times: halve every deadline
    let halve_ops = |ops: &Vec<Op>| -> Vec<Vec<Op>> {
        let mut v = Vec::new();
        for i in 0..ops.len() {
            if let Op::Wait(t) = ops[i] {
                if t > 1 {
                    let mut o = ops.clone();
                    o[i] = Op::Wait(t / 2);
                    v.push(o);
                }
            }
        }
        v
    };
    for d in 0..p.drivers.len() {
        if p.drivers[d].enabled {
            for o in halve_ops(&p.drivers[d].ops) {
                let mut q = p.clone();
                q.drivers[d].ops = o;
                out.push(q);
            }
        }
    }
    for a in 0..p.actors.len() {
        if !p.actors[a].enabled {
            continue;
        }
        if let Some((ph, ops)) = &p.actors[a].script {
            for o in halve_ops(ops) {
                let mut q = p.clone();
                q.actors[a].script = Some((*ph, o));
                out.push(q);
            }
        }
        if let StateP::Timed { at, then_stop } = &p.actors[a].state {
            if at.iter().any(|&t| t > 1) {
                let mut q = p.clone();
                q.actors[a].state = StateP::Timed {
                    at: at.iter().map(|t| t / 2).collect(),
                    then_stop: *then_stop,
                };
                out.push(q);
            }
        }
    }
    if p.term.at > 1 {
        let mut q = p.clone();
        q.term.at /= 2;
        for n in q.term.noise.iter_mut() {
            n.0 = n.0.min(q.term.at);
        }
        out.push(q);
    }
    if p.setup_y != 0 {
        let mut q = p.clone();
        q.setup_y = 0;
        out.push(q);
    }
    out
}

/// Remove what reduction disabled, so that the stored plan shows only what takes part.
/// Indices are kept (disabled entries stay as inert placeholders) because task ids and script
/// operations refer to them; placeholders are reset to the plainest form.
fn tidy(p: &mut Plan) {
    for a in 0..p.actors.len() {
        if !p.actor_on(a) {
            let node = p.actors[a].node;
            p.actors[a] = ActorP {
                node,
                dynamic: p.actors[a].dynamic,
                enabled: false,
                setup_y: 0,
                state: StateP::Pend,
                state_y: 0,
                run_y: 0,
                cleanup_y: 0,
                script: None,
            };
        }
    }
    for d in 0..p.drivers.len() {
        if !p.drivers[d].enabled {
            p.drivers[d].ops.clear();
        }
    }
    for n in 1..p.nodes.len() {
        if !p.node_on(n) {
            p.nodes[n].enabled = false;
        }
    }
}

pub fn minimise_and_write(
    seed: u64,
    cfg: &RunCfg,
    oracle: &str,
    signature: &str,
    dir: &str,
) -> Result<String, String> {
    let original = crate::plan_for(seed, &cfg.gen);
    let first = try_seeded(&original, seed, cfg)?;
    if !hits(&first, oracle, signature) {
        return Err("the violation does not reproduce from its seed in the same process".to_string());
    }
    let events_before = first.events.len();
    let t0 = std::time::Instant::now();
    // wall cap for the whole minimisation of one group; a livelock run costs a full step budget
    let cap = |limit: f64| t0.elapsed().as_secs_f64() > limit;

    // ---- phase 1: scenario ----
    // A simplification is accepted when the same oracle+signature fires under any of: the current
    // explicit schedule (events of tasks that no longer exist are skipped), the run's own seeded
    // policy, or three sibling seeded policies. Whatever schedule made it fire becomes current.
    let mut plan = original.clone();
    let mut events: Vec<Event> = first.events.clone();
    let mut tests = 0u64;
    let mut accepted = 0u64;
    let probe = |p: &Plan, ev: &[Event], tests: &mut u64| -> Option<Outcome> {
        *tests += 1;
        if let Ok(o) = try_replay(p, seed, ev) {
            if hits(&o, oracle, signature) {
                return Some(o);
            }
        }
        for k in 0..4u64 {
            let s2 = seed.wrapping_add(k.wrapping_mul(0x9E37_79B9_7F4A_7C15));
            if let Ok(o) = guarded_run(Arc::new(p.clone()), Box::new(Seeded::new(s2, cfg.mode.clone())), false) {
                if hits(&o, oracle, signature) {
                    return Some(o);
                }
            }
        }
        None
    };
    // candidates are recomputed after every accepted change, continuing at the same position
    let mut i = 0usize;
    let mut progress = false;
    loop {
        if tests > 3000 || cap(20.0) {
            break;
        }
        let cands = candidates(&plan);
        if i >= cands.len() {
            if !progress {
                break;
            }
            i = 0;
            progress = false;
            continue;
        }
        let q = cands[i].clone();
        if let Some(o) = probe(&q, &events, &mut tests) {
            plan = q;
            events = o.events;
            accepted += 1;
            progress = true;
        } else {
            i += 1;
        }
    }
    {
        let mut tidied = plan.clone();
        tidy(&mut tidied);
        if let Some(o) = probe(&tidied, &events, &mut tests) {
            plan = tidied;
            events = o.events;
        }
    }
    let base = try_replay(&plan, seed, &events)?;
    if !hits(&base, oracle, signature) {
        return Err("internal: reduced scenario lost the violation".to_string());
    }

    // ---- phase 2: schedule (ddmin) ----
    let mut events: Vec<Event> = base.events.clone();
    let mut n = 2usize;
    let mut sched_tests = 0u64;
    // a livelock is "the step budget ran out": its schedule cannot get shorter than the budget
    while oracle != "livelock" && events.len() >= 2 && sched_tests < 6000 && !cap(40.0) {
        let len = events.len();
        let chunk = len.div_ceil(n);
        let mut reduced = false;
        let mut start = 0;
        while start < len {
            let end = (start + chunk).min(len);
            let mut cand: Vec<Event> = Vec::with_capacity(len - (end - start));
            cand.extend_from_slice(&events[..start]);
            cand.extend_from_slice(&events[end..]);
            sched_tests += 1;
            if let Ok(o) = try_replay(&plan, seed, &cand) {
                if hits(&o, oracle, signature) && o.events.len() < events.len() {
                    events = o.events;
                    reduced = true;
                    break;
                }
            }
            start = end;
        }
        if reduced {
            n = (n - 1).max(2);
        } else {
            if chunk == 1 {
                break;
            }
            n = (n * 2).min(len);
        }
    }

    // ---- final: the stored events are exactly the executed schedule of the minimised run ----
    let fin = try_replay(&plan, seed, &events)?;
    if !hits(&fin, oracle, signature) {
        return Err("internal: minimised schedule lost the violation".to_string());
    }
    let events = fin.events.clone();
    let v = match &fin.violation {
        Some(v) => v.clone(),
        None => return Err("internal: no violation".to_string()),
    };
    let rf = ReplayFile {
        property: PROPERTY.to_string(),
        oracle: oracle.to_string(),
        signature: signature.to_string(),
        seed,
        cfg: cfg.clone(),
        plan: plan.clone(),
        events: events.iter().map(event_to_string).collect(),
        violation: ViolationBrief {
            step: v.step,
            summary: v.summary.clone(),
        },
        minimisation: json!({
            "scenario": format!("{} -> {}", original.describe(), plan.describe()),
            "scenario_tests": tests, "scenario_reductions_accepted": accepted,
            "events_before": events_before, "events_after": events.len(), "schedule_tests": sched_tests,
            "how_to_read": "events: one string per executor step, '<task id>' or '<task id>:<select! start branches drawn during that poll>'. Task ids are spawn order: 0 = termination driver, 1 = Runtime::exec, 2 = primary supervisor task, then subordinate supervisor tasks, actor tasks and free holder tasks in the order the plan registers them. `c47sim replay <file>` prints the annotated trace."
        }),
    };
    std::fs::create_dir_all(dir).map_err(|e| format!("mkdir {dir}: {e}"))?;
    let path = format!("{dir}/{seed}-{oracle}.json");
    let text = serde_json::to_string_pretty(&rf).map_err(|e| e.to_string())?;
    std::fs::write(&path, text + "\n").map_err(|e| format!("write {path}: {e}"))?;
    Ok(path)
}

