//! One simulated run: plan + policy -> outcome.

use crate::plan::Plan;
use crate::policy::{events_from, Event};
use crate::world::{self, Violation, N_CTR};
use simtokio::sim::{self, Policy, RunEnd};
use std::sync::Arc;

pub struct Outcome {
    pub violation: Option<Violation>,
    pub harness_error: Option<String>,
    pub digest: u64,
    pub steps: u64,
    pub clock: u64,
    pub tasks: usize,
    pub events: Vec<Event>,
    pub ctr: [u64; N_CTR],
    pub nontrivial: bool,
    pub end: RunEnd,
    pub log: Vec<String>,
}

pub fn run_one(plan: Arc<Plan>, policy: Box<dyn Policy>, budget: u64, verbose: bool) -> Outcome {
    sim::reset(policy);
    world::reg_install(plan.clone(), verbose);
    world::boot(plan);
    let end = sim::run(budget, &mut world::scenario_complete);
    match end {
        RunEnd::Idle => world::check_liveness("deadlock"),
        RunEnd::Budget => world::check_liveness("livelock"),
        RunEnd::Complete if world::spin_livelock() => world::check_liveness("livelock"),
        RunEnd::Halted | RunEnd::Complete => {}
    }
    world::finalize(end as u64);
    let steps = sim::steps();
    let clock = sim::clock();
    let tasks = sim::task_count();
    let mut reg = match world::reg_take() {
        Some(r) => r,
        None => unreachable!("registry installed above"),
    };
    // dropping the remaining futures runs instrumented destructors; the registry is gone, so
    // they are no-ops and cannot influence the digest.
    let (sched, sels) = sim::finish();
    for &t in &sched {
        reg.trace.word(t as u64);
    }
    for &(i, c) in &sels {
        reg.trace.word(((i as u64) << 8) | c as u64);
    }
    if let Some(v) = &reg.violation {
        reg.trace.bytes(v.oracle.as_bytes());
        reg.trace.bytes(v.signature.as_bytes());
        reg.trace.word(v.step);
    }
    Outcome {
        violation: reg.violation.take(),
        harness_error: reg.harness_error.take(),
        digest: reg.trace.0,
        steps,
        clock,
        tasks,
        events: events_from(&sched, &sels),
        ctr: reg.ctr,
        nontrivial: reg.nontrivial,
        end,
        log: reg.log.take().unwrap_or_default(),
    }
}
