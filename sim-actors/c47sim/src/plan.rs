//! The generated scenario: a supervisor tree, actors with behaviours, holders of the subordinate
//! supervisor handles with their scripts (register / stop / drop at simulated times), and the
//! runtime termination. A plan is plain data: it is written into the replay file and a replay runs
//! from the stored plan, not from the generator.

use crate::rng::Rng;
use serde::{Deserialize, Serialize};

#[derive(Serialize, Deserialize, Clone, Debug, PartialEq)]
pub enum Holder {
    /// node 0: the primary supervisor, owned by `Runtime::exec`
    Runtime,
    /// a free (unsupervised) task holds the handle and runs `drivers[i].ops`
    Driver(usize),
    /// a supervised actor registered at a strict ancestor holds the handle
    Actor(usize),
    /// the handle is dropped at the end of `setup` without `stop()`
    DropAtSetup,
}

#[derive(Serialize, Deserialize, Clone, Debug, PartialEq)]
pub struct NodeP {
    pub parent: Option<usize>,
    /// created by a script op (`Sub`) instead of in `RuntimeSetup::setup`
    pub dynamic: bool,
    pub holder: Holder,
    pub enabled: bool,
}

#[derive(Serialize, Deserialize, Clone, Debug, PartialEq)]
pub enum StateP {
    /// `state()` never resolves: the actor blocks until its supervisor stops it
    Pend,
    /// `state()` is Ready `k` times, then returns Stop (finishes by itself) or blocks
    Ready { k: u8, then_stop: bool },
    /// `state()` becomes Ready when the simulated clock reaches each of `at`, then Stop or block
    Timed { at: Vec<u64>, then_stop: bool },
}

#[derive(Serialize, Deserialize, Clone, Copy, Debug, PartialEq)]
pub enum Phase {
    Setup,
    Run,
    Cleanup,
}

#[derive(Serialize, Deserialize, Clone, Debug, PartialEq)]
pub enum Op {
    Nop,
    /// wait until the simulated clock reaches this value
    Wait(u64),
    Yield(u8),
    /// register actor `actor` on the held handle of `node`
    Spawn { node: usize, actor: usize },
    /// create subordinate `new` under the held handle of `node`; the new handle is then held too
    Sub { node: usize, new: usize },
    /// `stop().await` on the held handle, then evaluate the oracle
    Stop(usize),
    /// drop the held handle without stopping
    Drop(usize),
}

#[derive(Serialize, Deserialize, Clone, Debug, PartialEq)]
pub struct ActorP {
    pub node: usize,
    /// registered by a script op instead of in `setup`
    pub dynamic: bool,
    pub enabled: bool,
    /// number of times setup()/state()/run()/cleanup() yield to the executor before completing
    pub setup_y: u8,
    pub state: StateP,
    pub state_y: u8,
    pub run_y: u8,
    pub cleanup_y: u8,
    /// script executed once inside the given callback (holder actors only)
    pub script: Option<(Phase, Vec<Op>)>,
}

#[derive(Serialize, Deserialize, Clone, Debug, PartialEq)]
pub struct DriverP {
    pub enabled: bool,
    pub ops: Vec<Op>,
}

#[derive(Serialize, Deserialize, Clone, Copy, Debug, PartialEq)]
pub enum SigK {
    Hangup,
    User1,
    User2,
    Alarm,
}

#[derive(Serialize, Deserialize, Clone, Copy, Debug, PartialEq)]
pub enum TermK {
    Terminate,
    Interrupt,
    /// all software signal senders dropped: SoftwareSignalSource reports Terminate
    DropSender,
}

#[derive(Serialize, Deserialize, Clone, Debug, PartialEq)]
pub struct TermP {
    pub at: u64,
    pub kind: TermK,
    pub noise: Vec<(u64, SigK)>,
    pub handler_y: u8,
}

#[derive(Serialize, Deserialize, Clone, Debug, PartialEq)]
pub struct Plan {
    pub nodes: Vec<NodeP>,
    pub actors: Vec<ActorP>,
    pub drivers: Vec<DriverP>,
    pub term: TermP,
    /// setup() yields this many times after creating each subordinate
    pub setup_y: u8,
}

/// Generator knobs (part of `cfg` in replay files and evidence).
#[derive(Serialize, Deserialize, Clone, Debug, PartialEq)]
pub struct GenCfg {
    pub max_depth: usize,
    pub max_nodes: usize,
    pub max_actors_per_node: usize,
    /// percentage of plans whose scripts register actors / subordinates dynamically
    pub dynamic_pct: u64,
    /// allow supervisor handles to be dropped without stop()
    pub orphans: bool,
}

impl Default for GenCfg {
    fn default() -> Self {
        GenCfg {
            max_depth: 3,
            max_nodes: 9,
            max_actors_per_node: 4,
            dynamic_pct: 35,
            orphans: true,
        }
    }
}

impl Plan {
    pub fn depth(&self, mut n: usize) -> usize {
        let mut d = 0;
        while let Some(p) = self.nodes[n].parent {
            d += 1;
            n = p;
        }
        d
    }
    /// is `n` equal to or a descendant of `anc`?
    pub fn under(&self, mut n: usize, anc: usize) -> bool {
        loop {
            if n == anc {
                return true;
            }
            match self.nodes[n].parent {
                Some(p) => n = p,
                None => return false,
            }
        }
    }
    /// a node is effectively enabled only if all its ancestors are
    pub fn node_on(&self, mut n: usize) -> bool {
        loop {
            if !self.nodes[n].enabled {
                return false;
            }
            match self.nodes[n].parent {
                Some(p) => n = p,
                None => return true,
            }
        }
    }
    pub fn actor_on(&self, a: usize) -> bool {
        self.actors[a].enabled && self.node_on(self.actors[a].node)
    }
    pub fn max_depth(&self) -> usize {
        (0..self.nodes.len())
            .filter(|&n| self.node_on(n))
            .map(|n| self.depth(n))
            .max()
            .unwrap_or(0)
    }
    /// One-line human description used in samples and replay output.
    pub fn describe(&self) -> String {
        let nodes = (0..self.nodes.len()).filter(|&n| self.node_on(n)).count();
        let actors = (0..self.actors.len()).filter(|&a| self.actor_on(a)).count();
        let dynamic = (0..self.actors.len())
            .filter(|&a| self.actor_on(a) && self.actors[a].dynamic)
            .count()
            + (0..self.nodes.len())
                .filter(|&n| self.node_on(n) && self.nodes[n].dynamic)
                .count();
        format!(
            "{} supervisors (depth {}), {} actors, {} drivers, {} dynamic registrations, terminate={:?}@{}",
            nodes,
            self.max_depth(),
            actors,
            self.drivers.iter().filter(|d| d.enabled).count(),
            dynamic,
            self.term.kind,
            self.term.at
        )
    }
}

fn gen_actor(rng: &mut Rng, node: usize, dynamic: bool, horizon: u64) -> ActorP {
    let state = match rng.weighted(&[35, 40, 25]) {
        0 => StateP::Pend,
        1 => StateP::Ready {
            k: rng.below(5) as u8,
            then_stop: rng.chance(50),
        },
        _ => {
            let n = rng.range(1, 3);
            let mut at: Vec<u64> = (0..n).map(|_| rng.range(0, horizon)).collect();
            at.sort_unstable();
            StateP::Timed {
                at,
                then_stop: rng.chance(50),
            }
        }
    };
    ActorP {
        node,
        dynamic,
        enabled: true,
        setup_y: [0, 0, 0, 0, 0, 0, 1, 1, 2, 3][rng.below(10) as usize],
        state,
        state_y: [0, 0, 0, 0, 0, 0, 0, 1, 1, 2][rng.below(10) as usize],
        run_y: [0, 0, 0, 0, 1, 1, 2, 2, 5, 9][rng.below(10) as usize],
        cleanup_y: [0, 0, 0, 0, 1, 1, 1, 2, 2, 6][rng.below(10) as usize],
        script: None,
    }
}

/// Generate the scenario of one run from its plan stream.
pub fn generate(rng: &mut Rng, cfg: &GenCfg) -> Plan {
    // ---- tree (breadth first, so parents precede children) ----
    let mut nodes = vec![NodeP {
        parent: None,
        dynamic: false,
        holder: Holder::Runtime,
        enabled: true,
    }];
    let mut depth = vec![0usize];
    let mut i = 0;
    while i < nodes.len() {
        let d = depth[i];
        if d < cfg.max_depth {
            let kids = if i == 0 {
                rng.weighted(&[1, 5, 4, 1])
            } else {
                rng.weighted(&[5, 3, 2])
            };
            for _ in 0..kids {
                if nodes.len() < cfg.max_nodes {
                    nodes.push(NodeP {
                        parent: Some(i),
                        dynamic: false,
                        holder: Holder::DropAtSetup,
                        enabled: true,
                    });
                    depth.push(d + 1);
                }
            }
        }
        i += 1;
    }
    let static_nodes = nodes.len();
    let horizon = [15u64, 40, 100, 300][rng.below(4) as usize];

    // ---- static actors ----
    let mut actors: Vec<ActorP> = Vec::new();
    for n in 0..static_nodes {
        let cap = cfg.max_actors_per_node.min(4);
        let w = [2u64, 3, 3, 2, 1];
        let cnt = rng.weighted(&w[..=cap]);
        for _ in 0..cnt {
            actors.push(gen_actor(rng, n, false, horizon));
        }
    }

    // ---- runtime termination ----
    let term_at = rng.range(0, horizon);
    let kind = [
        TermK::Terminate,
        TermK::Terminate,
        TermK::Terminate,
        TermK::Interrupt,
        TermK::DropSender,
    ][rng.below(5) as usize];
    let nn = rng.weighted(&[5, 2, 2, 1]);
    let mut noise: Vec<(u64, SigK)> = (0..nn)
        .map(|_| {
            (
                rng.range(0, term_at),
                [SigK::Hangup, SigK::User1, SigK::User2, SigK::Alarm][rng.below(4) as usize],
            )
        })
        .collect();
    noise.sort_by_key(|x| x.0);
    let term = TermP {
        at: term_at,
        kind,
        noise,
        handler_y: [0, 0, 1, 2][rng.below(4) as usize],
    };

    // ---- holders and their scripts (top-down so that deeper scripts can aim at ancestors' stops) ----
    let use_dyn = rng.chance(cfg.dynamic_pct);
    let mut drivers: Vec<DriverP> = Vec::new();
    let mut stop_at: Vec<Option<u64>> = vec![None; static_nodes];
    for n in 1..static_nodes {
        let r = rng.below(100);
        // times of the stops that cover this node: its ancestors' and the runtime's
        let mut cover: Vec<u64> = vec![term_at];
        let mut p = nodes[n].parent;
        while let Some(x) = p {
            if let Some(t) = stop_at[x] {
                cover.push(t);
            }
            p = nodes[x].parent;
        }
        if cfg.orphans && r < 12 {
            nodes[n].holder = Holder::DropAtSetup;
            continue;
        }
        let aim = |rng: &mut Rng| -> u64 {
            if rng.chance(55) {
                let base = cover[rng.below(cover.len() as u64) as usize];
                (base + rng.below(14)).saturating_sub(2)
            } else {
                rng.range(0, horizon)
            }
        };
        let mut ops: Vec<Op> = Vec::new();
        let mut t = rng.range(0, horizon);
        ops.push(Op::Wait(t));
        // nodes this script holds and may still use (node id, depth)
        let mut live: Vec<(usize, usize)> = vec![(n, depth[n])];
        let registrations = |rng: &mut Rng,
                                 ops: &mut Vec<Op>,
                                 live: &mut Vec<(usize, usize)>,
                                 nodes: &mut Vec<NodeP>,
                                 actors: &mut Vec<ActorP>,
                                 depth: &mut Vec<usize>,
                                 count: u64| {
            for _ in 0..count {
                if live.is_empty() {
                    break;
                }
                if rng.chance(60) {
                    ops.push(Op::Wait(aim(rng)));
                } else if rng.chance(30) {
                    ops.push(Op::Yield(rng.range(1, 3) as u8));
                }
                let (target, td) = live[rng.below(live.len() as u64) as usize];
                if rng.chance(70) || td >= cfg.max_depth || nodes.len() >= cfg.max_nodes + 3 {
                    let a = actors.len();
                    actors.push(gen_actor(rng, target, true, horizon));
                    ops.push(Op::Spawn { node: target, actor: a });
                } else {
                    let new = nodes.len();
                    nodes.push(NodeP {
                        parent: Some(target),
                        dynamic: true,
                        holder: Holder::DropAtSetup, // informational: owned by the creating script
                        enabled: true,
                    });
                    depth.push(td + 1);
                    ops.push(Op::Sub { node: target, new });
                    live.push((new, td + 1));
                    if rng.chance(80) {
                        let a = actors.len();
                        actors.push(gen_actor(rng, new, true, horizon));
                        ops.push(Op::Spawn { node: new, actor: a });
                    }
                }
            }
        };
        if use_dyn && rng.chance(60) {
            let c = rng.range(1, 3);
            registrations(rng, &mut ops, &mut live, &mut nodes, &mut actors, &mut depth, c);
        }
        // fate of every held handle
        let fate = rng.weighted(&[60, if cfg.orphans { 10 } else { 0 }, 30]);
        match fate {
            0 => {
                if rng.chance(70) {
                    t = t.max(rng.range(0, horizon));
                    ops.push(Op::Wait(t));
                }
                ops.push(Op::Stop(n));
                stop_at[n] = Some(t);
                live.retain(|x| x.0 != n);
            }
            1 => {
                ops.push(Op::Wait(aim(rng)));
                ops.push(Op::Drop(n));
                live.retain(|x| x.0 != n);
            }
            _ => {}
        }
        if use_dyn && rng.chance(35) {
            let c = rng.range(1, 2);
            registrations(rng, &mut ops, &mut live, &mut nodes, &mut actors, &mut depth, c);
        }
        // dynamic children: sometimes stopped or dropped explicitly
        let extra: Vec<(usize, usize)> = live.iter().copied().filter(|x| x.0 != n).collect();
        for (m, _) in extra {
            match rng.weighted(&[40, if cfg.orphans { 15 } else { 0 }, 45]) {
                0 => {
                    ops.push(Op::Wait(aim(rng)));
                    ops.push(Op::Stop(m));
                }
                1 => ops.push(Op::Drop(m)),
                _ => {}
            }
        }
        if fate == 2 {
            // kept: hold the handle for a while so that it outlives some stop above it
            ops.push(Op::Wait(aim(rng) + rng.below(20)));
        }

        if r < 45 {
            // held by an actor registered at a strict ancestor
            let mut anc: Vec<usize> = Vec::new();
            let mut p = nodes[n].parent;
            while let Some(x) = p {
                anc.push(x);
                p = nodes[x].parent;
            }
            let host = anc[rng.below(anc.len() as u64) as usize];
            let phase = [Phase::Setup, Phase::Run, Phase::Run, Phase::Run, Phase::Cleanup, Phase::Cleanup]
                [rng.below(6) as usize];
            let mut a = gen_actor(rng, host, false, horizon);
            if phase == Phase::Run {
                a.state = if rng.chance(60) {
                    StateP::Ready {
                        k: rng.range(1, 3) as u8,
                        then_stop: rng.chance(40),
                    }
                } else {
                    StateP::Timed {
                        at: vec![rng.range(0, horizon)],
                        then_stop: rng.chance(40),
                    }
                };
            }
            a.script = Some((phase, ops));
            let id = actors.len();
            actors.push(a);
            nodes[n].holder = Holder::Actor(id);
        } else {
            let id = drivers.len();
            drivers.push(DriverP { enabled: true, ops });
            nodes[n].holder = Holder::Driver(id);
        }
    }

    Plan {
        nodes,
        actors,
        drivers,
        term,
        setup_y: [0, 0, 0, 1, 2][rng.below(5) as usize],
    }
}
