//! Scheduling policies: every executor step and every `select!` start branch is decided here.

use crate::rng::Rng;
use serde::{Deserialize, Serialize};
use simtokio::sim::Policy;

#[derive(Serialize, Deserialize, Clone, Debug, PartialEq)]
pub enum Mode {
    /// uniform choice among the woken tasks
    Uniform,
    /// PCT-style: random distinct priorities, highest-priority woken task runs; at `d` random
    /// change points the running task drops to the lowest priority; a task that yields (returns
    /// Pending after waking itself) also drops to the lowest priority, which keeps the schedule fair
    /// towards tasks that spin.
    Pct { d: u32, horizon: u64 },
}

pub struct Seeded {
    mode: Mode,
    sched: Rng,
    sel: Rng,
    prio: Vec<i64>,
    next_low: i64,
    change: Vec<u64>,
}

impl Seeded {
    pub fn new(seed: u64, mode: Mode) -> Self {
        let mut sched = Rng::new(seed, 2);
        let mut change = Vec::new();
        if let Mode::Pct { d, horizon } = mode {
            for _ in 0..d {
                change.push(sched.below(horizon.max(1)));
            }
            change.sort_unstable();
        }
        Seeded {
            mode,
            sched,
            sel: Rng::new(seed, 3),
            prio: Vec::new(),
            next_low: -1,
            change,
        }
    }
    fn demote(&mut self, task: usize) {
        if task < self.prio.len() {
            self.prio[task] = self.next_low;
            self.next_low -= 1;
        }
    }
}

impl Policy for Seeded {
    fn on_spawn(&mut self, task: usize) {
        if let Mode::Pct { .. } = self.mode {
            while self.prio.len() <= task {
                // random positive priority; ties broken by task id in pick()
                let p = (self.sched.next() >> 2) as i64;
                self.prio.push(p.max(1));
            }
        }
    }
    fn pick(&mut self, step: u64, runnable: &[usize]) -> usize {
        match self.mode {
            Mode::Uniform => runnable[self.sched.below(runnable.len() as u64) as usize],
            Mode::Pct { .. } => {
                let best = |prio: &Vec<i64>| -> usize {
                    let mut b = runnable[0];
                    for &t in runnable {
                        if prio.get(t).copied().unwrap_or(0) > prio.get(b).copied().unwrap_or(0) {
                            b = t;
                        }
                    }
                    b
                };
                let mut b = best(&self.prio);
                while self.change.first().is_some_and(|&c| c <= step) {
                    self.change.remove(0);
                    self.demote(b);
                    b = best(&self.prio);
                }
                b
            }
        }
    }
    fn select(&mut self, _task: usize, n: u32) -> u32 {
        self.sel.below(n.max(1) as u64) as u32
    }
    fn after_poll(&mut self, task: usize, yielded: bool, _finished: bool) {
        if yielded {
            if let Mode::Pct { .. } = self.mode {
                self.demote(task);
            }
        }
    }
}

/// One recorded executor step: the task polled and the `select!` start branches it drew.
#[derive(Clone, Debug, PartialEq)]
pub struct Event {
    pub task: u32,
    pub sels: Vec<u8>,
}

pub fn events_from(sched: &[u32], sels: &[(u32, u8)]) -> Vec<Event> {
    let mut ev: Vec<Event> = sched.iter().map(|&t| Event { task: t, sels: Vec::new() }).collect();
    for &(i, c) in sels {
        if let Some(e) = ev.get_mut(i as usize) {
            e.sels.push(c);
        }
    }
    ev
}

pub fn event_to_string(e: &Event) -> String {
    if e.sels.is_empty() {
        format!("{}", e.task)
    } else {
        let s: String = e.sels.iter().map(|c| char::from(b'0' + (*c).min(9))).collect();
        format!("{}:{}", e.task, s)
    }
}

pub fn event_from_string(s: &str) -> Option<Event> {
    let (t, sels) = match s.split_once(':') {
        Some((t, c)) => (t, c.bytes().map(|b| b.wrapping_sub(b'0')).collect()),
        None => (s, Vec::new()),
    };
    Some(Event {
        task: t.parse().ok()?,
        sels,
    })
}

/// Follows an explicit event list. An event whose task is not runnable is skipped (this only
/// happens while minimising); when the list is exhausted the run continues with a fixed seeded
/// uniform policy, so that a replay is a function of the file alone.
pub struct Replay {
    events: Vec<Event>,
    pos: usize,
    cur: Vec<u8>,
    cur_pos: usize,
    fallback: Rng,
    fallback_sel: Rng,
    pub diverged: bool,
}

impl Replay {
    pub fn new(events: Vec<Event>, seed: u64) -> Self {
        Replay {
            events,
            pos: 0,
            cur: Vec::new(),
            cur_pos: 0,
            fallback: Rng::new(seed, 12),
            fallback_sel: Rng::new(seed, 13),
            diverged: false,
        }
    }
}

impl Policy for Replay {
    fn pick(&mut self, _step: u64, runnable: &[usize]) -> usize {
        self.cur.clear();
        self.cur_pos = 0;
        while self.pos < self.events.len() {
            let e = &self.events[self.pos];
            self.pos += 1;
            if runnable.contains(&(e.task as usize)) {
                self.cur = e.sels.clone();
                return e.task as usize;
            }
            self.diverged = true;
        }
        runnable[self.fallback.below(runnable.len() as u64) as usize]
    }
    fn select(&mut self, _task: usize, n: u32) -> u32 {
        if self.cur_pos < self.cur.len() {
            let v = self.cur[self.cur_pos] as u32;
            self.cur_pos += 1;
            v % n.max(1)
        } else {
            self.fallback_sel.below(n.max(1) as u64) as u32
        }
    }
}
