//! Small seeded PRNG (splitmix64 -> xoshiro256**). Never used in logging paths.

#[derive(Clone)]
pub struct Rng {
    s: [u64; 4],
}

pub fn splitmix(x: &mut u64) -> u64 {
    *x = x.wrapping_add(0x9E37_79B9_7F4A_7C15);
    let mut z = *x;
    z = (z ^ (z >> 30)).wrapping_mul(0xBF58_476D_1CE4_E5B9);
    z = (z ^ (z >> 27)).wrapping_mul(0x94D0_49BB_1331_11EB);
    z ^ (z >> 31)
}

impl Rng {
    /// Independent sub-stream `stream` of run seed `seed`.
    pub fn new(seed: u64, stream: u64) -> Self {
        let mut x = seed ^ stream.wrapping_mul(0xD6E8_FEB8_6659_FD93);
        let mut s = [0u64; 4];
        for v in s.iter_mut() {
            *v = splitmix(&mut x);
        }
        if s == [0; 4] {
            s[0] = 1;
        }
        Rng { s }
    }
    pub fn next(&mut self) -> u64 {
        let r = self.s[1].wrapping_mul(5).rotate_left(7).wrapping_mul(9);
        let t = self.s[1] << 17;
        self.s[2] ^= self.s[0];
        self.s[3] ^= self.s[1];
        self.s[1] ^= self.s[2];
        self.s[0] ^= self.s[3];
        self.s[2] ^= t;
        self.s[3] = self.s[3].rotate_left(45);
        r
    }
    /// Uniform in 0..n (n > 0).
    pub fn below(&mut self, n: u64) -> u64 {
        debug_assert!(n > 0);
        // multiply-shift; bias is irrelevant at these sizes
        ((self.next() as u128 * n as u128) >> 64) as u64
    }
    pub fn range(&mut self, lo: u64, hi_incl: u64) -> u64 {
        lo + self.below(hi_incl - lo + 1)
    }
    pub fn chance(&mut self, pct: u64) -> bool {
        self.below(100) < pct
    }
    /// Index drawn with the given integer weights.
    pub fn weighted(&mut self, w: &[u64]) -> usize {
        let total: u64 = w.iter().sum();
        let mut r = self.below(total.max(1));
        for (i, &x) in w.iter().enumerate() {
            if r < x {
                return i;
            }
            r -= x;
        }
        w.len() - 1
    }
}

/// FNV-1a over 64-bit words; used for trace digests.
#[derive(Clone, Copy)]
pub struct Fnv(pub u64);
impl Default for Fnv {
    fn default() -> Self {
        Fnv(0xcbf2_9ce4_8422_2325)
    }
}
impl Fnv {
    pub fn word(&mut self, w: u64) {
        for b in w.to_le_bytes() {
            self.0 ^= b as u64;
            self.0 = self.0.wrapping_mul(0x0000_0100_0000_01B3);
        }
    }
    pub fn bytes(&mut self, bs: &[u8]) {
        for &b in bs {
            self.0 ^= b as u64;
            self.0 = self.0.wrapping_mul(0x0000_0100_0000_01B3);
        }
        self.word(bs.len() as u64);
    }
}
