#!/bin/bash
# Builds the C43 simulation (a TEST-cfg shadow build of kanidm's pam_sparkle_common, compiled
# from the kanidm working tree by path) and prints the path of the test executable on the last
# line of stdout.
#
#   KANIDM_SRC   kanidm source tree to compile against (default /repo). With the default the
#                workspace is /verif/sim-pam itself. With any other value (sensitivity runs on a
#                scratch copy) a scratch workspace is generated in $C43_WS (required, under
#                /dev/shm) so that nothing under /verif changes.
#   C43_TARGET_DIR  cargo target dir (default /verif/target-pam)
set -euo pipefail
export CARGO_NET_OFFLINE=true RUSTUP_TOOLCHAIN=1.96.0 CARGO_TERM_COLOR=never
SIM_DIR="$(cd "$(dirname "${BASH_SOURCE[0]}")" && pwd)"
KANIDM_SRC="${KANIDM_SRC:-/repo}"
KANIDM_SRC="${KANIDM_SRC%/}"
TARGET_DIR="${C43_TARGET_DIR:-/verif/target-pam}"

[ -f "$KANIDM_SRC/unix_integration/pam_sparkle_common/src/core.rs" ] || { echo "build.sh: no kanidm tree at $KANIDM_SRC" >&2; exit 2; }

render() { # template -> file, only rewritten when the content changes (keeps cargo's mtimes quiet)
  local tmp; tmp="$(mktemp -p /dev/shm c43-render-XXXXXX)"
  sed -e "s|@KANIDM_SRC@|$KANIDM_SRC|g" -e "s|@SIM_DIR@|$SIM_DIR|g" "$1" > "$tmp"
  if ! cmp -s "$tmp" "$2"; then mkdir -p "$(dirname "$2")"; cp "$tmp" "$2"; chmod 644 "$2"; fi
  rm -f "$tmp"
}

if [ "$KANIDM_SRC" = "/repo" ]; then
  WS="$SIM_DIR"
else
  WS="${C43_WS:?KANIDM_SRC is not /repo: set C43_WS to a scratch workspace dir under /dev/shm}"
  mkdir -p "$WS/.cargo"
  cp "$SIM_DIR/rust-toolchain.toml" "$WS/rust-toolchain.toml"
fi
render "$SIM_DIR/templates/Cargo.toml.in" "$WS/Cargo.toml"
render "$SIM_DIR/templates/lib.rs.in" "$WS/src/lib.rs"
[ -f "$WS/Cargo.lock" ] || cp "$KANIDM_SRC/Cargo.lock" "$WS/Cargo.lock"
if [ "$WS" != "$SIM_DIR" ] || [ ! -f "$WS/.cargo/config.toml" ]; then
  printf '[build]\ntarget-dir = "%s"\n\n[net]\noffline = true\n' "$TARGET_DIR" > "$WS/.cargo/config.toml"
fi

mkdir -p "$TARGET_DIR"
[ -f "$TARGET_DIR/.gitignore" ] || echo '*' > "$TARGET_DIR/.gitignore"   # build output is never committed
LOG="$TARGET_DIR/build-c43.$$.log"
JSON="$TARGET_DIR/build-c43.$$.json"
trap 'rm -f "$LOG" "$JSON"' EXIT
export C43_KANIDM_SRC="$KANIDM_SRC" CARGO_TARGET_DIR="$TARGET_DIR"
if ! ( cd "$WS" && cargo test --offline --lib --no-run --message-format=json > "$JSON" 2> "$LOG" ); then
  echo "build.sh: cargo failed" >&2
  grep -o '"rendered":"[^"]*' "$JSON" | sed 's/"rendered":"//; s/\\n/\n/g' | head -80 >&2 || true
  tail -40 "$LOG" >&2
  exit 2
fi
BIN="$(python3 - "$JSON" <<'PY'
import json, sys
exe = None
for line in open(sys.argv[1]):
    line = line.strip()
    if not line.startswith('{'):
        continue
    m = json.loads(line)
    if m.get('reason') == 'compiler-artifact' and m.get('profile', {}).get('test') and m.get('executable') \
       and m.get('target', {}).get('name') == 'pam_sparkle_common':
        exe = m['executable']
print(exe or '')
PY
)"
[ -n "$BIN" ] && [ -x "$BIN" ] || { echo "build.sh: test executable not found" >&2; exit 2; }
echo "$BIN"
