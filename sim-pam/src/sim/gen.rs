//! Scenario generator: one integer -> one explicit script.

use super::fixtures;
use super::prng::Rng;
use super::scenario::*;

const NAMES: &[&str] = &["tobias", "root", "alice", "bob", "svc-backup", "x"];
const UNKNOWN_NAMES: &[&str] = &["nonexist", "Tobias", "tobias ", "", "root\u{0}", "toby", "alice@example.com"];
/// PAM codes an application-side failure may carry (never PAM_SUCCESS).
const ERR_CODES: &[u8] = &[4, 5, 6, 7, 9, 19, 19, 19, 20, 25, 26, 30, 31];
const ERROR_KINDS: &[&str] = &["invalidstate", "backend", "sessionexpired", "notauthenticated", "accessdenied", "invalidaccountstate"];

pub struct Knobs {
    pub max_script: usize,
    pub max_calls: usize,
}

impl Knobs {
    pub fn for_tier(tier: &str) -> Knobs {
        match tier {
            "thorough" => Knobs { max_script: 10, max_calls: 4 },
            _ => Knobs { max_script: 7, max_calls: 3 },
        }
    }
}

fn sid(rng: &mut Rng) -> u64 {
    *rng.pick(&[0u64, 1, 7, 42, u64::MAX])
}

fn wrong_kind_reply(rng: &mut Rng) -> Reply {
    // replies that belong to some other request; the ones that "look like yes" come first
    match rng.weighted(&[6, 6, 2, 2, 2, 1, 1, 1, 1, 1, 1]) {
        0 => Reply::PamStatus(Some(true)),
        1 => Reply::Ok,
        2 => Reply::PamStatus(Some(false)),
        3 => Reply::PamStatus(None),
        4 => Reply::NssAccount(true),
        5 => Reply::NssAccounts,
        6 => Reply::NssGroups,
        7 => Reply::NssGroup(rng.pct(50)),
        8 => Reply::SshKeys,
        9 => Reply::ProviderStatus,
        _ => Reply::NssAccount(false),
    }
}

fn any_step_reply(rng: &mut Rng) -> Reply {
    let s = sid(rng);
    match rng.weighted(&[5, 3, 2, 5, 2, 2, 3, 3, 2, 2]) {
        0 => Reply::Success { sid: s },
        1 => Reply::Denied { sid: s },
        2 => Reply::Unknown { sid: s },
        3 => Reply::Password { sid: s },
        4 => Reply::Pin { sid: s },
        5 => Reply::MfaCode { sid: s },
        6 => Reply::MfaPoll { sid: s, interval: *rng.pick(&[0u32, 1, 2, 5, 30]) },
        7 => Reply::MfaPollWait { sid: s },
        8 => Reply::SetupPin { sid: s },
        _ => Reply::DeviceGrant { sid: s, expires_in: *rng.pick(&[0u32, 1, 5, 60, 120]), with_message: rng.pct(50) },
    }
}

/// A plausible conversation the resolver could have for one sm_authenticate.
fn auth_flow(rng: &mut Rng) -> Vec<Reply> {
    let s = sid(rng);
    let verdict = |rng: &mut Rng| match rng.weighted(&[6, 3, 1]) {
        0 => Reply::Success { sid: s },
        1 => Reply::Denied { sid: s },
        _ => Reply::Unknown { sid: s },
    };
    let mut v = Vec::new();
    match rng.weighted(&[8, 2, 3, 3, 3, 2, 2, 2]) {
        0 => {
            v.push(Reply::Password { sid: s });
            v.push(verdict(rng));
        }
        1 => v.push(verdict(rng)),
        2 => {
            v.push(Reply::Password { sid: s });
            v.push(Reply::MfaCode { sid: s });
            v.push(verdict(rng));
        }
        3 => {
            v.push(Reply::MfaPoll { sid: s, interval: *rng.pick(&[0u32, 1, 5]) });
            for _ in 0..rng.below(4) {
                v.push(Reply::MfaPollWait { sid: s });
            }
            v.push(verdict(rng));
        }
        4 => {
            v.push(Reply::DeviceGrant { sid: s, expires_in: *rng.pick(&[0u32, 5, 60, 120]), with_message: rng.pct(50) });
            v.push(verdict(rng));
        }
        5 => {
            v.push(Reply::SetupPin { sid: s });
            v.push(verdict(rng));
        }
        6 => {
            v.push(Reply::Pin { sid: s });
            v.push(verdict(rng));
        }
        _ => {
            v.push(Reply::Password { sid: s });
            v.push(Reply::Password { sid: s });
            v.push(verdict(rng));
        }
    }
    v
}

fn raw_garbage(rng: &mut Rng) -> Pkt {
    let frame = |json: &str| {
        let mut b = (json.len() as u32).to_be_bytes().to_vec();
        b.extend_from_slice(json.as_bytes());
        hex(&b)
    };
    let h = match rng.below(11) {
        0 => {
            // random bytes
            let n = 1 + rng.below(40) as usize;
            let b: Vec<u8> = (0..n).map(|_| rng.next_u64() as u8).collect();
            hex(&b)
        }
        1 => frame("{\"Foo\":1}"),
        2 => frame("\"Success\""),
        3 => frame("{\"PamAuthenticateStepResponse\":{\"response\":\"Success\"}}"), // session_id missing
        4 => frame("{\"PamAuthenticateStepResponse\":{\"response\":\"success\",\"session_id\":1}}"),
        5 => frame("{\"PamAuthenticateInit\":{\"account_id\":\"tobias\",\"info\":{\"service\":\"sshd\",\"tty\":null,\"rhost\":null}}}"),
        6 => "00000000".to_string(),                   // zero-length frame
        7 => "ffffffff7b7d".to_string(),               // absurd length prefix
        8 => frame("{\"PamAuthenticateStepResponse\":{\"response\":\"Success\",\"session_id\":1}} trailing"),
        9 => frame("{\"PamStatus\":\"true\"}"),
        _ => {
            // a valid Success frame with one byte of the JSON flipped
            let mut f = Reply::Success { sid: 1 }.encode();
            let i = 4 + rng.below((f.len() - 4) as u64) as usize;
            f[i] ^= 1 << rng.below(7);
            hex(&f)
        }
    };
    Pkt::Raw(h)
}

/// Wrap replies into packets, injecting delivery faults.
fn packets_from(rng: &mut Rng, replies: Vec<Reply>, fault_pct: u64) -> Vec<Pkt> {
    let mut out = Vec::new();
    for r in replies {
        if !rng.pct(fault_pct) {
            out.push(Pkt::Frame(r));
            continue;
        }
        let flen = r.encode().len();
        match rng.weighted(&[4, 3, 3, 3, 3, 2, 2]) {
            0 => out.push(Pkt::Split(r, 1 + rng.below((flen - 1) as u64) as usize)),
            1 => out.push(Pkt::Trunc(r, 1 + rng.below((flen - 1) as u64) as usize)),
            2 => out.push(raw_garbage(rng)),
            3 => out.push(Pkt::Frame(wrong_kind_reply(rng))),
            4 => out.push(Pkt::Frame(Reply::Error(rng.pick(ERROR_KINDS).to_string()))),
            5 => {
                let extra = if rng.pct(50) { Reply::Success { sid: 1 } } else { any_step_reply(rng) };
                if rng.pct(50) {
                    out.push(Pkt::Coalesce(r, extra));
                } else {
                    out.push(Pkt::Coalesce(extra, r));
                }
            }
            _ => {} // the reply is lost
        }
    }
    out
}

struct DbUser {
    name: String,
    /// cleartext that would verify if the field were honoured (for locked/mangled variants: the
    /// cleartext of the underlying hash, which is what a fail-open bug would accept)
    tempting: Option<String>,
}

fn gen_hash_field(rng: &mut Rng) -> (String, Option<String>) {
    let (_, clear, hash) = *rng.pick(fixtures::SUPPORTED);
    match rng.weighted(&[50, 18, 5, 10, 17]) {
        0 => (hash.to_string(), Some(clear.to_string())),
        1 => {
            // locked
            let f = match rng.below(8) {
                0 => "!".to_string(),
                1 => "*".to_string(),
                2 => "!!".to_string(),
                3 => format!("!{hash}"),
                4 => format!("!!{hash}"),
                5 => format!("*{hash}"),
                6 => "*LK*".to_string(),
                _ => format!("!{hash}"),
            };
            (f, Some(clear.to_string()))
        }
        2 => (String::new(), Some(rng.pick(&["", "a", "hunter2"]).to_string())),
        3 => {
            if rng.pct(75) {
                let (_, c, h) = *rng.pick(fixtures::UNSUPPORTED);
                (h.to_string(), Some(c.to_string()))
            } else {
                (rng.pick(&["x", "NP", "LK", "password", "a"]).to_string(), Some("a".to_string()))
            }
        }
        _ => {
            // supported prefix, broken body
            let parts: Vec<&str> = hash.split('$').collect(); // ["", id, (rounds|param), salt, body] or ["", id, salt, body]
            let body = parts.last().copied().unwrap_or("");
            let head = &hash[..hash.len() - body.len()];
            let f = match rng.below(10) {
                0 => {
                    // one character of the body replaced
                    // (not the last one: its low-order bits are padding in crypt's base64)
                    let mut b: Vec<char> = body.chars().collect();
                    if b.len() > 1 {
                        let i = rng.below(b.len() as u64 - 1) as usize;
                        b[i] = if b[i] == 'A' { 'B' } else { 'A' };
                    }
                    format!("{head}{}", b.into_iter().collect::<String>())
                }
                1 => format!("{head}{}", &body[..body.len() / 2]),
                2 => head.to_string(),
                3 => format!("${}$", parts.get(1).copied().unwrap_or("6")),
                4 => format!("${}$${body}", parts.get(1).copied().unwrap_or("6")),
                5 => format!("{hash}$extra"),
                6 => format!("{hash} "),
                7 => format!("$6$rounds=999${}${body}", "saltsalt"),
                8 => format!("$6$rounds=abc${}${body}", "saltsalt"),
                _ => format!("{}{}", head, "A".repeat(body.len())),
            };
            (f, Some(clear.to_string()))
        }
    }
}

fn wrong_password(rng: &mut Rng, right: &str) -> String {
    match rng.below(7) {
        0 => {
            let (_, c, _) = *rng.pick(fixtures::SUPPORTED);
            if c == right { format!("{right}x") } else { c.to_string() }
        }
        1 => format!("{right} "),
        2 => right.to_uppercase() + "!",
        3 => {
            let mut c: Vec<char> = right.chars().collect();
            c.pop();
            let s: String = c.into_iter().collect();
            if s == right { "wrong".into() } else { s }
        }
        4 => if right.is_empty() { " ".into() } else { String::new() },
        5 => "wrong".into(),
        _ => format!("x{right}"),
    }
}

fn gen_answer(rng: &mut Rng, right: Option<&str>, right_pct: u64) -> Ans<Option<String>> {
    let r = rng.below(100);
    if r < 6 {
        return Ans::Err(*rng.pick(ERR_CODES));
    }
    if r < 12 {
        return Ans::Ok(None);
    }
    match right {
        Some(p) if rng.pct(right_pct) => Ans::Ok(Some(p.to_string())),
        Some(p) => Ans::Ok(Some(wrong_password(rng, p))),
        None => Ans::Ok(Some(rng.pick(&["a", "hunter2", "", "wrong"]).to_string())),
    }
}

fn gen_handler(rng: &mut Rng, users: &[DbUser], forced_user: Option<usize>) -> (Handler, Option<usize>) {
    // who is authenticating
    let (account, who) = match forced_user {
        Some(i) => (Ans::Ok(users[i].name.clone()), Some(i)),
        None => {
            let r = rng.below(100);
            if r < 4 {
                (Ans::Err(*rng.pick(ERR_CODES)), None)
            } else if r < 16 || users.is_empty() {
                (Ans::Ok(rng.pick(UNKNOWN_NAMES).to_string()), None)
            } else {
                let i = rng.below(users.len() as u64) as usize;
                (Ans::Ok(users[i].name.clone()), Some(i))
            }
        }
    };
    let right = who.and_then(|i| users[i].tempting.clone());
    let right = right.as_deref();
    let authtok = gen_answer(rng, right, 65);
    let n_pw = rng.below(4) as usize;
    let passwords = (0..n_pw).map(|_| gen_answer(rng, right, 70)).collect();
    // PINs: pairs mostly match so that SetupPin completes
    let mut pins = Vec::new();
    for _ in 0..rng.below(3) {
        let p = rng.pick(&["1234", "0000", "987654"]).to_string();
        pins.push(Ans::Ok(Some(p.clone())));
        if rng.pct(75) {
            pins.push(Ans::Ok(Some(p)));
        } else {
            pins.push(gen_answer(rng, Some("1111"), 50));
        }
    }
    let mfacodes = (0..rng.below(3)).map(|_| gen_answer(rng, Some("123456"), 80)).collect();
    let messages = (0..rng.below(4))
        .map(|_| if rng.pct(10) { Ans::Err(*rng.pick(ERR_CODES)) } else { Ans::Ok(true) })
        .collect();
    let service = if rng.pct(3) { Ans::Err(*rng.pick(ERR_CODES)) } else { Ans::Ok(rng.pct(50)) };
    (
        Handler { account, service, authtok, passwords, pins, mfacodes, messages },
        who,
    )
}

fn day_field(rng: &mut Rng, around: i64) -> String {
    match rng.weighted(&[46, 46, 4, 3, 1]) {
        0 => String::new(),
        1 => (around + rng.range(-400, 400)).max(1).to_string(),
        2 => "0".to_string(),
        3 => "99999".to_string(),
        // out of the representable range of the time crate: the parser's problem
        _ => rng.pick(&["9999999", "99999999999", "-1"]).to_string(),
    }
}

pub fn generate(seed: u64, k: &Knobs) -> Scenario {
    let mut rng = Rng::new(seed);
    let mode = rng.weighted(&[48, 42, 10]); // 0 daemon reachable, 1 unreachable, 2 daemon appears mid-session

    // ---- clock and local databases --------------------------------------------------------
    let today = rng.range(15000, 25000); // days since the epoch
    let mut now = today * 86400 + rng.range(0, 86399);

    let n_users = if mode == 0 && rng.pct(50) { 0 } else { 1 + rng.below(4) as usize };
    let mut names: Vec<&str> = NAMES.to_vec();
    let mut users: Vec<DbUser> = Vec::new();
    let mut passwd = Vec::new();
    let mut shadow = Vec::new();
    if rng.pct(15) {
        passwd.push("# local accounts".to_string());
    }
    for u in 0..n_users {
        let name = names.remove(rng.below(names.len() as u64) as usize).to_string();
        let (field, tempting) = gen_hash_field(&mut rng);
        // account expiry: for the first user it is placed relative to the clock below
        let expire = if u == 0 {
            match rng.weighted(&[40, 50, 4, 3, 3]) {
                0 => String::new(),
                1 => {
                    let d = today + rng.range(-3, 3);
                    // put the clock right at / around midnight of the expiry day sometimes
                    match rng.below(6) {
                        0 => now = d * 86400,
                        1 => now = d * 86400 - 1,
                        2 => now = d * 86400 + 1,
                        3 => now = d * 86400 - 86400,
                        _ => {}
                    }
                    d.to_string()
                }
                2 => "0".to_string(),
                3 => "99999".to_string(),
                _ => rng.pick(&["9999999", "abc", "-5", "1"]).to_string(),
            }
        } else {
            day_field(&mut rng, today)
        };
        let lastchg = day_field(&mut rng, today - 200);
        let min = rng.pick(&["", "0", "1"]).to_string();
        let max = rng.pick(&["", "99999", "90", "30", "1"]).to_string();
        let warn = rng.pick(&["", "7", "0"]).to_string();
        let inact = rng.pick(&["", "", "0", "7", "30"]).to_string();
        let gecos = if rng.pct(3) { format!("\"{name}") } else { format!("User {name}") };
        let has_passwd = rng.pct(92);
        let has_shadow = rng.pct(92);
        if has_passwd {
            if rng.pct(2) {
                passwd.push(format!("{name}:x:notanumber:100:{gecos}:/home/{name}:/bin/sh"));
            } else {
                passwd.push(format!("{name}:x:{}:{}:{gecos}:/home/{name}:/bin/sh", 1000 + u, 1000 + u));
            }
        }
        if has_shadow {
            if rng.pct(2) {
                shadow.push(format!("{name}:{field}:{lastchg}")); // short line
            } else {
                shadow.push(format!("{name}:{field}:{lastchg}:{min}:{max}:{warn}:{inact}:{expire}:"));
            }
        }
        users.push(DbUser { name, tempting });
    }
    if rng.pct(10) {
        shadow.insert(0, "sshd:!:19978::::::".to_string());
    }

    // ---- calls ----------------------------------------------------------------------------
    let n_calls = match rng.weighted(&[70, 20, 10]) {
        0 => 1,
        1 => 2.min(k.max_calls),
        _ => (2 + rng.below(3) as usize).min(k.max_calls),
    };
    // a session is about one user most of the time
    let session_user = if !users.is_empty() && rng.pct(80) { Some(0usize) } else { None };
    let mut calls = Vec::new();
    for j in 0..n_calls {
        let entry = if j == 0 || rng.pct(55) {
            if n_calls > 1 && j > 0 && rng.pct(10) { Entry::OpenSession } else { Entry::Authenticate }
        } else if rng.pct(75) {
            Entry::AcctMgmt
        } else {
            Entry::OpenSession
        };
        let forced = if rng.pct(85) { session_user } else { None };
        let (handler, _) = gen_handler(&mut rng, &users, forced);
        calls.push(Call {
            entry,
            use_first_pass: rng.pct(40),
            ignore_unknown_user: rng.pct(30),
            handler,
        });
    }

    // ---- daemon script ------------------------------------------------------------------
    let daemon = if mode == 1 {
        None
    } else {
        let connect_at = if mode == 2 && n_calls > 1 { 1 + rng.below((n_calls - 1) as u64) as usize } else { 0 };
        let fault_pct = *rng.pick(&[0u64, 0, 10, 25, 50]);
        let mut packets = Vec::new();
        if rng.pct(25) {
            // free-form: any sequence of replies
            let n = 1 + rng.below(k.max_script as u64) as usize;
            let replies: Vec<Reply> = (0..n)
                .map(|_| match rng.weighted(&[70, 15, 15]) {
                    0 => any_step_reply(&mut rng),
                    1 => wrong_kind_reply(&mut rng),
                    _ => Reply::Error(rng.pick(ERROR_KINDS).to_string()),
                })
                .collect();
            packets = packets_from(&mut rng, replies, fault_pct);
        } else {
            for c in calls.iter().skip(connect_at) {
                let replies = match c.entry {
                    Entry::Authenticate => auth_flow(&mut rng),
                    Entry::AcctMgmt => vec![match rng.weighted(&[6, 2, 1, 2]) {
                        0 => Reply::PamStatus(Some(true)),
                        1 => Reply::PamStatus(Some(false)),
                        2 => Reply::PamStatus(None),
                        _ => wrong_kind_reply(&mut rng),
                    }],
                    Entry::OpenSession => vec![if rng.pct(80) { Reply::Ok } else { wrong_kind_reply(&mut rng) }],
                };
                packets.extend(packets_from(&mut rng, replies, fault_pct));
            }
            // the daemon goes away early: the tail of the script is never sent
            if rng.pct(20) && !packets.is_empty() {
                let keep = rng.below(packets.len() as u64) as usize;
                packets.truncate(keep);
            }
        }
        packets.truncate(k.max_script + 4);
        let close = match rng.weighted(&[80, 6, 14]) {
            0 => Close::EndOfScript,
            1 => Close::BeforeFirstRequest,
            _ => Close::DuringCallback(rng.below(8) as u32),
        };
        Some(Daemon { connect_at, packets, close })
    };

    let offset_min = *rng.pick(&[0i32, 0, 0, 330, -480, 60]);
    Scenario { now, offset_min, passwd, shadow, daemon, calls }
}
