//! Delta debugging of a violating script: drop chunks of events (and simplify knobs) while the
//! same oracle + signature still fires.

use super::exec;
use super::model::{self, Violation};
use super::scenario::*;

fn still_fails(sc: &Scenario, want: &Violation, tests: &mut u64) -> bool {
    if sc.calls.is_empty() {
        return false;
    }
    *tests += 1;
    let out = exec::run(sc);
    match model::check(sc, &out) {
        Some(v) => v.oracle == want.oracle && v.signature == want.signature,
        None => false,
    }
}

/// Classic ddmin over one list; `build` makes the candidate scenario from a kept subset.
fn ddmin<T: Clone>(
    items: Vec<T>,
    build: &dyn Fn(&[T]) -> Scenario,
    want: &Violation,
    tests: &mut u64,
) -> Vec<T> {
    let mut cur = items;
    let mut n = 2usize;
    while !cur.is_empty() {
        let chunk = cur.len().div_ceil(n);
        let mut reduced = false;
        let mut start = 0;
        while start < cur.len() {
            let end = (start + chunk).min(cur.len());
            let mut cand: Vec<T> = Vec::with_capacity(cur.len() - (end - start));
            cand.extend_from_slice(&cur[..start]);
            cand.extend_from_slice(&cur[end..]);
            if still_fails(&build(&cand), want, tests) {
                cur = cand;
                n = (n - 1).max(2);
                reduced = true;
                break;
            }
            start = end;
        }
        if !reduced {
            if chunk <= 1 {
                break;
            }
            n = (n * 2).min(cur.len());
        }
    }
    cur
}

pub fn minimise(sc0: &Scenario, want: &Violation) -> (Scenario, u64) {
    let mut tests = 0u64;
    let mut sc = sc0.clone();
    loop {
        let before = sc.canonical();

        // calls (indices kept so that connect_at can follow)
        {
            let base = sc.clone();
            let idx: Vec<usize> = (0..base.calls.len()).collect();
            let build = |keep: &[usize]| {
                let mut s = base.clone();
                s.calls = keep.iter().map(|i| base.calls[*i].clone()).collect();
                if let Some(d) = s.daemon.as_mut() {
                    d.connect_at = keep.iter().filter(|i| **i < d.connect_at).count();
                }
                s
            };
            let kept = ddmin(idx, &build, want, &mut tests);
            sc = build(&kept);
        }
        // daemon script
        if sc.daemon.is_some() {
            let base = sc.clone();
            let items = base.daemon.as_ref().map(|d| d.packets.clone()).unwrap_or_default();
            let build = |keep: &[Pkt]| {
                let mut s = base.clone();
                if let Some(d) = s.daemon.as_mut() {
                    d.packets = keep.to_vec();
                }
                s
            };
            let kept = ddmin(items, &build, want, &mut tests);
            sc = build(&kept);
            // no daemon at all?
            let mut s = sc.clone();
            s.daemon = None;
            if still_fails(&s, want, &mut tests) {
                sc = s;
            }
        }
        // databases
        {
            let base = sc.clone();
            let build = |keep: &[String]| {
                let mut s = base.clone();
                s.passwd = keep.to_vec();
                s
            };
            let kept = ddmin(base.passwd.clone(), &build, want, &mut tests);
            sc = build(&kept);
        }
        {
            let base = sc.clone();
            let build = |keep: &[String]| {
                let mut s = base.clone();
                s.shadow = keep.to_vec();
                s
            };
            let kept = ddmin(base.shadow.clone(), &build, want, &mut tests);
            sc = build(&kept);
        }
        // application-side answer lists, per call
        for j in 0..sc.calls.len() {
            macro_rules! shrink_list {
                ($field:ident) => {{
                    let base = sc.clone();
                    let build = |keep: &[_]| {
                        let mut s = base.clone();
                        s.calls[j].handler.$field = keep.to_vec();
                        s
                    };
                    let kept = ddmin(base.calls[j].handler.$field.clone(), &build, want, &mut tests);
                    sc = build(&kept);
                }};
            }
            shrink_list!(passwords);
            shrink_list!(pins);
            shrink_list!(mfacodes);
            shrink_list!(messages);
        }
        // knob simplifications, one at a time
        let mut cands: Vec<Scenario> = Vec::new();
        if sc.offset_min != 0 {
            let mut s = sc.clone();
            s.offset_min = 0;
            cands.push(s);
        }
        if let Some(d) = &sc.daemon {
            if d.close != Close::EndOfScript {
                let mut s = sc.clone();
                s.daemon.as_mut().unwrap().close = Close::EndOfScript;
                cands.push(s);
            }
        }
        for j in 0..sc.calls.len() {
            if sc.calls[j].use_first_pass {
                let mut s = sc.clone();
                s.calls[j].use_first_pass = false;
                cands.push(s);
            }
            if sc.calls[j].ignore_unknown_user {
                let mut s = sc.clone();
                s.calls[j].ignore_unknown_user = false;
                cands.push(s);
            }
            if sc.calls[j].handler.authtok != Ans::Ok(None) {
                let mut s = sc.clone();
                s.calls[j].handler.authtok = Ans::Ok(None);
                cands.push(s);
            }
            if sc.calls[j].handler.service != Ans::Ok(false) {
                let mut s = sc.clone();
                s.calls[j].handler.service = Ans::Ok(false);
                cands.push(s);
            }
        }
        for s in cands {
            if still_fails(&s, want, &mut tests) {
                sc = s;
                break; // the other candidates were built from the old script: go round again
            }
        }

        if sc.canonical() == before {
            break;
        }
    }
    (sc, tests)
}
