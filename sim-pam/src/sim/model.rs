//! The oracle. One-sided, exactly the property statement:
//!
//!   sm_authenticate == PAM_SUCCESS  =>
//!        (the daemon is reachable  AND  the last reply the module consumed is a well-formed
//!         PamAuthenticateStepResponse{Success} in a conversation opened for this user)
//!     OR (the daemon is unreachable AND the user has a passwd and a shadow entry AND the shadow
//!         password field is exactly a supported hash whose cleartext (known from the fixture
//!         table, computed by the system libcrypt) is a password the user handed over in this
//!         call AND the account expiry date has not been reached at the current time).
//!
//! Nothing is demanded of non-success codes, of acct_mgmt / open_session, of timing, or of which
//! non-success code is used.

use super::exec::{CallOutcome, Req, RunOutcome};
use super::fixtures;
use super::scenario::*;
use sparkle_unix_common::unix_proto::{ClientResponse, PamAuthResponse};

#[derive(Clone, Debug)]
pub struct Violation {
    pub oracle: &'static str,
    pub signature: String,
    pub step: usize,
    pub summary: String,
}

/// What the module got back for one request it sent, per the byte-level reference below.
#[derive(Clone, Debug, PartialEq)]
pub enum Consumed {
    /// a complete frame that deserialises to a ClientResponse: (kind, is explicit auth success)
    Reply { kind: String, explicit_success: bool, pkt_classes: Vec<String> },
    /// a complete frame (by its length prefix) that does not deserialise
    Undecodable { pkt_classes: Vec<String> },
    /// the stream ended before a complete frame
    Eof { partial_bytes: usize, pkt_classes: Vec<String> },
}

impl Consumed {
    pub fn class(&self) -> String {
        match self {
            Consumed::Reply { kind, .. } => kind.clone(),
            Consumed::Undecodable { .. } => "undecodable".into(),
            Consumed::Eof { partial_bytes: 0, .. } => "eof".into(),
            Consumed::Eof { .. } => "eof-mid-frame".into(),
        }
    }
    pub fn pkt_classes(&self) -> &Vec<String> {
        match self {
            Consumed::Reply { pkt_classes, .. }
            | Consumed::Undecodable { pkt_classes }
            | Consumed::Eof { pkt_classes, .. } => pkt_classes,
        }
    }
}

/// Byte-level reference of "which reply belongs to which request": requests are answered in
/// order; for each request the stream is read segment by segment until the 4-byte big-endian
/// length prefix is satisfied; that frame is the reply; whatever else arrived in the same
/// segment is not a reply to anything (the client starts every request with an empty buffer).
pub struct Wire {
    segs: Vec<(Vec<u8>, String)>,
    pos: usize,
}

impl Wire {
    pub fn new(d: &Daemon) -> Wire {
        let mut segs = Vec::new();
        for p in &d.packets {
            let cls = p.class();
            for s in p.segments() {
                segs.push((s, cls.clone()));
            }
        }
        Wire { segs, pos: 0 }
    }

    pub fn consume(&mut self) -> Consumed {
        let mut buf: Vec<u8> = Vec::new();
        let mut classes = Vec::new();
        loop {
            if self.pos >= self.segs.len() {
                return Consumed::Eof { partial_bytes: buf.len(), pkt_classes: classes };
            }
            let (seg, cls) = &self.segs[self.pos];
            self.pos += 1;
            buf.extend_from_slice(seg);
            if classes.last() != Some(cls) {
                classes.push(cls.clone());
            }
            if buf.len() < 4 {
                continue;
            }
            let len = u32::from_be_bytes([buf[0], buf[1], buf[2], buf[3]]) as usize;
            if buf.len() < 4 + len {
                continue;
            }
            let frame = &buf[4..4 + len];
            return match serde_json::from_slice::<ClientResponse>(frame) {
                Ok(r) => {
                    let explicit_success = matches!(
                        r,
                        ClientResponse::PamAuthenticateStepResponse { response: PamAuthResponse::Success, .. }
                    );
                    Consumed::Reply { kind: real_kind(&r), explicit_success, pkt_classes: classes }
                }
                Err(_) => Consumed::Undecodable { pkt_classes: classes },
            };
        }
    }
}

fn real_kind(r: &ClientResponse) -> String {
    match r {
        ClientResponse::PamAuthenticateStepResponse { response, .. } => match response {
            PamAuthResponse::Unknown => "Unknown",
            PamAuthResponse::Success => "Success",
            PamAuthResponse::Denied => "Denied",
            PamAuthResponse::Password => "Password",
            PamAuthResponse::DeviceAuthorizationGrant { .. } => "DeviceAuthorizationGrant",
            PamAuthResponse::MFACode { .. } => "MFACode",
            PamAuthResponse::MFAPoll { .. } => "MFAPoll",
            PamAuthResponse::MFAPollWait => "MFAPollWait",
            PamAuthResponse::SetupPin { .. } => "SetupPin",
            PamAuthResponse::Pin => "Pin",
        }
        .to_string(),
        ClientResponse::PamStatus(Some(true)) => "PamStatus(true)".into(),
        ClientResponse::PamStatus(Some(false)) => "PamStatus(false)".into(),
        ClientResponse::PamStatus(None) => "PamStatus(none)".into(),
        ClientResponse::Ok => "Ok".into(),
        ClientResponse::Error(_) => "Error".into(),
        ClientResponse::SshKeys(_) => "SshKeys".into(),
        ClientResponse::NssAccounts(_) => "NssAccounts".into(),
        ClientResponse::NssAccount(_) => "NssAccount".into(),
        ClientResponse::NssGroups(_) => "NssGroups".into(),
        ClientResponse::NssGroup(_) => "NssGroup".into(),
        ClientResponse::ProviderStatus(_) => "ProviderStatus".into(),
    }
}

/// Class of a shadow password field, judged on the text alone (not with kanidm's parser).
#[derive(Clone, Debug, PartialEq)]
pub enum HashClass {
    /// exactly a fixture hash of a scheme kanidm supports; index into fixtures::SUPPORTED
    Supported(usize),
    Empty,
    /// starts with '!' or '*'
    Locked,
    /// a real hash of a scheme kanidm does not support, or a placeholder such as "x"
    Unsupported,
    /// carries a supported scheme prefix but is not an intact fixture hash
    Mangled,
}

impl HashClass {
    pub fn name(&self) -> &'static str {
        match self {
            HashClass::Supported(_) => "supported",
            HashClass::Empty => "empty",
            HashClass::Locked => "locked",
            HashClass::Unsupported => "unsupported-scheme",
            HashClass::Mangled => "mangled-supported-prefix",
        }
    }
}

pub fn classify_hash(field: &str) -> HashClass {
    if field.is_empty() {
        return HashClass::Empty;
    }
    if field.starts_with('!') || field.starts_with('*') {
        return HashClass::Locked;
    }
    if let Some(i) = fixtures::SUPPORTED.iter().position(|(_, _, h)| *h == field) {
        return HashClass::Supported(i);
    }
    if field.starts_with("$6$") || field.starts_with("$5$") || field.starts_with("$y$") {
        return HashClass::Mangled;
    }
    HashClass::Unsupported
}

/// The first line of the database whose first ':'-separated field is the name.
pub fn find_line<'a>(lines: &'a [String], name: &str) -> Option<Vec<&'a str>> {
    for l in lines {
        let t = l.trim();
        if t.is_empty() || t.starts_with('#') {
            continue;
        }
        let f: Vec<&str> = l.split(':').collect();
        if f[0] == name {
            return Some(f);
        }
    }
    None
}

/// The account expiry date of a shadow line (field 8, days since the epoch).
/// `None` = no expiry; `Some(Err)` = not a non-negative number (no demand is made then);
/// 0 is "no expiry or 1970-01-01" per shadow(5) and is also exempt from any demand.
pub fn expiry_days(fields: &[&str]) -> Option<Result<i64, ()>> {
    let f = fields.get(7)?;
    if f.is_empty() {
        return None;
    }
    match f.parse::<i64>() {
        Ok(d) if d > 0 => Some(Ok(d)),
        _ => Some(Err(())),
    }
}

#[derive(Clone, Debug)]
pub struct ShadowView {
    pub in_passwd: bool,
    pub in_shadow: bool,
    pub hash: Option<HashClass>,
    /// Some(true) expired, Some(false) not expired, None = no demand (no date, 0, unparsable)
    pub expired: Option<bool>,
    pub has_expiry: bool,
    pub expiry_delta_s: Option<i64>,
    /// password older than lastchg+max(+inactive): informational only, not part of the property
    pub password_aged_out: bool,
}

pub fn shadow_view(sc: &Scenario, name: &str) -> ShadowView {
    let p = find_line(&sc.passwd, name);
    let s = find_line(&sc.shadow, name);
    let mut v = ShadowView {
        in_passwd: p.is_some(),
        in_shadow: s.is_some(),
        hash: None,
        expired: None,
        has_expiry: false,
        expiry_delta_s: None,
        password_aged_out: false,
    };
    if let Some(f) = s {
        v.hash = Some(classify_hash(f.get(1).copied().unwrap_or("")));
        match expiry_days(&f) {
            Some(Ok(d)) => {
                v.has_expiry = true;
                v.expired = Some(sc.now >= d * 86400);
                v.expiry_delta_s = Some(sc.now - d * 86400);
            }
            Some(Err(())) => v.has_expiry = true,
            None => {}
        }
        let lastchg = f.get(2).and_then(|x| x.parse::<i64>().ok());
        let max = f.get(4).and_then(|x| x.parse::<i64>().ok());
        let inact = f.get(6).and_then(|x| x.parse::<i64>().ok()).unwrap_or(0);
        if let (Some(l), Some(m)) = (lastchg, max) {
            if l > 0 && m < 99999 && sc.now / 86400 > l + m + inact {
                v.password_aged_out = true;
            }
        }
    }
    v
}

/// Per-call facts the oracle, the coverage counters and the trace all use.
pub struct CallFacts {
    pub reachable: bool,
    pub consumed: Vec<Consumed>,
    pub shadow: Option<ShadowView>,
}

pub fn facts(sc: &Scenario, out: &RunOutcome) -> Vec<CallFacts> {
    let mut wire = sc.daemon.as_ref().map(Wire::new);
    let connect_at = sc.daemon.as_ref().map(|d| d.connect_at).unwrap_or(usize::MAX);
    let mut v = Vec::new();
    for (j, (call, co)) in sc.calls.iter().zip(out.calls.iter()).enumerate() {
        let reachable = j >= connect_at;
        let mut consumed = Vec::new();
        if let Some(w) = wire.as_mut() {
            for _ in 0..co.requests.len() {
                consumed.push(w.consume());
            }
        }
        let shadow = match &call.handler.account {
            Ans::Ok(name) => Some(shadow_view(sc, name)),
            Ans::Err(_) => None,
        };
        v.push(CallFacts { reachable, consumed, shadow });
    }
    v
}

pub fn check(sc: &Scenario, out: &RunOutcome) -> Option<Violation> {
    let fx = facts(sc, out);
    for (j, ((call, co), f)) in sc.calls.iter().zip(out.calls.iter()).zip(fx.iter()).enumerate() {
        if call.entry != Entry::Authenticate || co.code != Some(0) {
            continue;
        }
        if let Some(v) = check_auth_success(j, call, co, f) {
            return Some(v);
        }
    }
    None
}

fn opts_str(call: &Call) -> String {
    format!(
        "use_first_pass={} ignore_unknown_user={}",
        call.use_first_pass, call.ignore_unknown_user
    )
}

fn check_auth_success(j: usize, call: &Call, co: &CallOutcome, f: &CallFacts) -> Option<Violation> {
    let user = match &call.handler.account {
        Ans::Ok(n) => Some(n.as_str()),
        Ans::Err(_) => None,
    };
    if f.reachable {
        let oracle = "daemon-explicit-success";
        let mk = |signature: String, why: String| {
            Some(Violation {
                oracle,
                signature,
                step: j,
                summary: format!(
                    "call {j} sm_authenticate returned PAM_SUCCESS with the daemon reachable, but {why} \
                     (requests sent: [{}]; {})",
                    co.requests.iter().map(|r| r.label()).collect::<Vec<_>>().join(", "),
                    opts_str(call)
                ),
            })
        };
        let Some(last) = f.consumed.last() else {
            return mk(
                "reachable; no request sent".into(),
                "the module sent no request to the daemon in this call".into(),
            );
        };
        match last {
            Consumed::Reply { explicit_success: true, .. } => {}
            other => {
                return mk(
                    format!("reachable; last-reply={}", other.class()),
                    format!(
                        "the last reply it consumed was `{}` (segments {:?}), not PamAuthenticateStepResponse{{Success}}",
                        other.class(),
                        other.pkt_classes()
                    ),
                );
            }
        }
        match (co.requests.first(), user) {
            (Some(Req::AuthInit { account_id }), Some(u)) if account_id == u => {}
            (first, _) => {
                return mk(
                    "reachable; success not for this user".into(),
                    format!(
                        "the conversation was not opened by PamAuthenticateInit for the authenticating user {:?} (first request: {})",
                        user,
                        first.map(|r| r.label()).unwrap_or_else(|| "none".into())
                    ),
                );
            }
        }
        None
    } else {
        let oracle = "shadow-verify";
        let mk = |signature: String, why: String| {
            Some(Violation {
                oracle,
                signature,
                step: j,
                summary: format!(
                    "call {j} sm_authenticate returned PAM_SUCCESS with the daemon unreachable, but {why} ({})",
                    opts_str(call)
                ),
            })
        };
        let Some(user) = user else {
            return mk("unreachable; no account id".into(), "the application returned an error for the user name".into());
        };
        let Some(sv) = f.shadow.as_ref() else {
            return mk("unreachable; no account id".into(), "no user".into());
        };
        if !sv.in_passwd || !sv.in_shadow {
            return mk(
                format!(
                    "unreachable; unknown-user({})",
                    if !sv.in_shadow { "no shadow entry" } else { "no passwd entry" }
                ),
                format!("user {user:?} is unknown (passwd entry: {}, shadow entry: {})", sv.in_passwd, sv.in_shadow),
            );
        }
        let hc = sv.hash.clone().unwrap_or(HashClass::Empty);
        let idx = match hc {
            HashClass::Supported(i) => i,
            other => {
                return mk(
                    format!("unreachable; hash={}", other.name()),
                    format!("the shadow password field of {user:?} is {} and can verify nothing", other.name()),
                );
            }
        };
        let (scheme, clear, _) = fixtures::SUPPORTED[idx];
        if !co.log.secrets_given.iter().any(|s| s == clear) {
            return mk(
                if co.log.secrets_given.is_empty() {
                    format!("unreachable; no-password-given scheme={scheme}")
                } else {
                    format!("unreachable; wrong-password scheme={scheme}")
                },
                format!(
                    "the {scheme} hash of {user:?} is the hash of a password the user never entered ({} secret(s) handed over)",
                    co.log.secrets_given.len()
                ),
            );
        }
        if sv.expired == Some(true) {
            return mk(
                "unreachable; account-expired".into(),
                format!(
                    "the account of {user:?} expired {} s before the current time",
                    sv.expiry_delta_s.unwrap_or(0)
                ),
            );
        }
        None
    }
}
