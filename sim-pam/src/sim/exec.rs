//! Executes one scenario against the real module code (`crate::core::*`) on this thread.
//! No threads, no scheduling: the whole daemon script is written into one end of a
//! SOCK_SEQPACKET socketpair before the module runs; the other end is handed to the module
//! through `RequestOptions::Test`.

use super::clock;
use super::scenario::*;
use crate::constants::PamResultCode;
use crate::core::{self, PamHandler, RequestOptions};
use crate::module::PamResult;
use crate::pam::ModuleOptions;
use bytes::BytesMut;
use sparkle_unix_common::client_sync::UnixStream;
use sparkle_unix_common::json_codec::JsonCodec;
use sparkle_unix_common::unix_passwd::{parse_etc_passwd, parse_etc_shadow, EtcShadow, EtcUser};
use sparkle_unix_common::unix_proto::{
    ClientRequest, ClientResponse, DeviceAuthorizationResponse, PamAuthRequest, PamServiceInfo,
};
use std::cell::RefCell;
use std::os::fd::{AsRawFd, FromRawFd, OwnedFd};
use std::panic::{catch_unwind, AssertUnwindSafe};
use std::rc::Rc;
use time::{OffsetDateTime, UtcOffset};
use tokio_util::codec::Decoder;

/// A request the module sent to the daemon, as decoded by the real codec on the daemon side.
#[derive(Clone, Debug, PartialEq)]
pub enum Req {
    AuthInit { account_id: String },
    AuthStep { kind: &'static str, cred: Option<String> },
    AccountAllowed { account_id: String },
    BeginSession { account_id: String },
    Other(String),
    Undecodable,
}

impl Req {
    pub fn label(&self) -> String {
        match self {
            Req::AuthInit { account_id } => format!("Init({account_id})"),
            Req::AuthStep { kind, .. } => format!("Step({kind})"),
            Req::AccountAllowed { account_id } => format!("AccountAllowed({account_id})"),
            Req::BeginSession { account_id } => format!("BeginSession({account_id})"),
            Req::Other(s) => format!("Other({s})"),
            Req::Undecodable => "Undecodable".into(),
        }
    }
}

/// Everything the application side was asked and handed out during one call.
#[derive(Clone, Debug, Default)]
pub struct HandlerLog {
    pub events: Vec<String>,
    /// secrets handed to the module (stacked authtok, password prompts) in this call
    pub secrets_given: Vec<String>,
    pub errors_returned: u32,
    pub messages_shown: Vec<String>,
}

#[derive(Debug)]
pub struct CallOutcome {
    /// PAM code as integer, or None if the module panicked
    pub code: Option<u8>,
    pub panic_msg: Option<String>,
    pub requests: Vec<Req>,
    pub log: HandlerLog,
    pub daemon_dropped_during: bool,
}

#[derive(Debug)]
pub struct RunOutcome {
    pub calls: Vec<CallOutcome>,
    pub passwd_parse: &'static str, // "ok" | "error" | "panic"
    pub shadow_parse: &'static str,
    pub parse_panic_msg: Option<String>,
    pub sim_elapsed_ns: u64,
    pub clock_observations: u64,
    pub sleeps: u64,
    pub slept_ns: u64,
}

thread_local! {
    /// True while the module (or kanidm's parser) runs under catch_unwind: a panic there is a
    /// result, not a harness failure, and is not printed.
    static GUARDED: std::cell::Cell<bool> = const { std::cell::Cell::new(false) };
    static LAST_PANIC: RefCell<Option<String>> = const { RefCell::new(None) };
}

/// Called by the panic hook for panics under `guarded`.
pub fn note_panic(msg: String) {
    let _ = LAST_PANIC.try_with(|p| *p.borrow_mut() = Some(msg));
}

pub fn take_panic() -> Option<String> {
    LAST_PANIC.try_with(|p| p.borrow_mut().take()).ok().flatten()
}

pub fn in_guarded() -> bool {
    GUARDED.try_with(|g| g.get()).unwrap_or(false)
}

fn guarded<R>(f: impl FnOnce() -> R) -> std::thread::Result<R> {
    GUARDED.with(|g| g.set(true));
    let r = catch_unwind(AssertUnwindSafe(f));
    GUARDED.with(|g| g.set(false));
    r
}

struct DaemonEnd {
    fd: Option<OwnedFd>,
    drained: Vec<Req>,
}

impl DaemonEnd {
    /// Read (without blocking) every request the module has written so far and decode it with
    /// the daemon's codec.
    fn drain(&mut self) {
        let Some(fd) = self.fd.as_ref() else { return };
        let mut codec: JsonCodec<ClientRequest, ClientResponse> = JsonCodec::default();
        loop {
            let mut buf = vec![0u8; 64 * 1024];
            let n = unsafe {
                libc::recv(fd.as_raw_fd(), buf.as_mut_ptr() as *mut libc::c_void, buf.len(), libc::MSG_DONTWAIT)
            };
            if n <= 0 {
                break;
            }
            let mut b = BytesMut::from(&buf[..n as usize]);
            let req = match codec.decode(&mut b) {
                Ok(Some(r)) => summarise(r),
                _ => Req::Undecodable,
            };
            self.drained.push(req);
        }
    }

    fn close(&mut self) {
        self.drain();
        self.fd = None;
    }
}

fn summarise(r: ClientRequest) -> Req {
    match r {
        ClientRequest::PamAuthenticateInit { account_id, .. } => Req::AuthInit { account_id },
        ClientRequest::PamAuthenticateStep { request, .. } => match request {
            PamAuthRequest::Password { cred } => Req::AuthStep { kind: "Password", cred: Some(cred) },
            PamAuthRequest::DeviceAuthorizationGrant { .. } => Req::AuthStep { kind: "DeviceAuthorizationGrant", cred: None },
            PamAuthRequest::MFACode { cred } => Req::AuthStep { kind: "MFACode", cred: Some(cred) },
            PamAuthRequest::MFAPoll => Req::AuthStep { kind: "MFAPoll", cred: None },
            PamAuthRequest::SetupPin { pin } => Req::AuthStep { kind: "SetupPin", cred: Some(pin) },
            PamAuthRequest::Pin { cred } => Req::AuthStep { kind: "Pin", cred: Some(cred) },
        },
        ClientRequest::PamAccountAllowed { account_id, .. } => Req::AccountAllowed { account_id },
        ClientRequest::PamAccountBeginSession { account_id, .. } => Req::BeginSession { account_id },
        other => Req::Other(other.as_safe_string()),
    }
}

struct Shared {
    daemon: DaemonEnd,
    callbacks: u32,
    drop_at: Option<u32>,
    dropped_now: bool,
}

struct SimHandler {
    script: Handler,
    st: RefCell<HState>,
    shared: Rc<RefCell<Shared>>,
}

#[derive(Default)]
struct HState {
    pw_i: usize,
    pin_i: usize,
    mfa_i: usize,
    msg_i: usize,
    log: HandlerLog,
}

impl SimHandler {
    /// Every conversation callback is a point at which the daemon may go away.
    fn tick(&self) {
        // The application side is not the code under test: its time does not count.
        clock::pause();
        {
            let mut sh = self.shared.borrow_mut();
            if sh.drop_at == Some(sh.callbacks) && sh.daemon.fd.is_some() {
                sh.daemon.close();
                sh.dropped_now = true;
            }
            sh.callbacks += 1;
        }
        clock::resume();
    }

    fn err<T>(&self, what: &str, code: u8) -> PamResult<T> {
        // The application side never reports a failure as PAM_SUCCESS (the real PamHandle
        // only returns Err(code) for code != PAM_SUCCESS).
        let code = if code == 0 { PamResultCode::PAM_CONV_ERR as u8 } else { code };
        let mut st = self.st.borrow_mut();
        st.log.errors_returned += 1;
        st.log.events.push(format!("{what}->Err({code})"));
        Err(code_from_u8(code))
    }

    fn answer(&self, what: &str, a: Option<Ans<Option<String>>>) -> PamResult<Option<String>> {
        match a {
            Some(Ans::Ok(Some(v))) => {
                let mut st = self.st.borrow_mut();
                st.log.events.push(format!("{what}->Some"));
                st.log.secrets_given.push(v.clone());
                Ok(Some(v))
            }
            Some(Ans::Ok(None)) => {
                self.st.borrow_mut().log.events.push(format!("{what}->None"));
                Ok(None)
            }
            Some(Ans::Err(c)) => self.err(what, c),
            // script exhausted: the conversation fails
            None => self.err(what, PamResultCode::PAM_CONV_ERR as u8),
        }
    }
}

impl PamHandler for SimHandler {
    fn account_id(&self) -> PamResult<String> {
        self.tick();
        match &self.script.account {
            Ans::Ok(n) => {
                self.st.borrow_mut().log.events.push("account_id->Ok".into());
                Ok(n.clone())
            }
            Ans::Err(c) => self.err("account_id", *c),
        }
    }

    fn service_info(&self) -> PamResult<PamServiceInfo> {
        self.tick();
        match &self.script.service {
            Ans::Ok(rhost) => {
                self.st.borrow_mut().log.events.push("service_info->Ok".into());
                Ok(PamServiceInfo {
                    service: "sshd".into(),
                    tty: Some("ssh".into()),
                    rhost: if *rhost { Some("192.0.2.7".into()) } else { None },
                })
            }
            Ans::Err(c) => self.err("service_info", *c),
        }
    }

    fn envlist(&self) -> PamResult<Vec<String>> {
        Ok(Vec::new())
    }

    fn set_env(&self, _value: &str) -> PamResult<()> {
        Ok(())
    }

    fn authtok(&self) -> PamResult<Option<String>> {
        self.tick();
        self.answer("authtok", Some(self.script.authtok.clone()))
    }

    fn message(&self, prompt: &str) -> PamResult<()> {
        self.tick();
        let a = {
            let mut st = self.st.borrow_mut();
            st.log.messages_shown.push(prompt.to_string());
            let a = self.script.messages.get(st.msg_i).cloned();
            st.msg_i += 1;
            a
        };
        match a {
            Some(Ans::Err(c)) => self.err("message", c),
            _ => {
                self.st.borrow_mut().log.events.push("message->Ok".into());
                Ok(())
            }
        }
    }

    fn message_device_grant(&self, data: &DeviceAuthorizationResponse) -> PamResult<()> {
        self.tick();
        let a = {
            let mut st = self.st.borrow_mut();
            st.log.messages_shown.push(format!("device-grant:{}", data.user_code));
            let a = self.script.messages.get(st.msg_i).cloned();
            st.msg_i += 1;
            a
        };
        match a {
            Some(Ans::Err(c)) => self.err("message_device_grant", c),
            _ => {
                self.st.borrow_mut().log.events.push("message_device_grant->Ok".into());
                Ok(())
            }
        }
    }

    fn prompt_for_password(&self) -> PamResult<Option<String>> {
        self.tick();
        let a = {
            let mut st = self.st.borrow_mut();
            let a = self.script.passwords.get(st.pw_i).cloned();
            st.pw_i += 1;
            a
        };
        self.answer("prompt_for_password", a)
    }

    fn prompt_for_pin(&self, msg: Option<&str>) -> PamResult<Option<String>> {
        self.tick();
        let a = {
            let mut st = self.st.borrow_mut();
            if let Some(m) = msg {
                st.log.messages_shown.push(m.to_string());
            }
            let a = self.script.pins.get(st.pin_i).cloned();
            st.pin_i += 1;
            a
        };
        self.answer("prompt_for_pin", a)
    }

    fn prompt_for_mfacode(&self) -> PamResult<Option<String>> {
        self.tick();
        let a = {
            let mut st = self.st.borrow_mut();
            let a = self.script.mfacodes.get(st.mfa_i).cloned();
            st.mfa_i += 1;
            a
        };
        self.answer("prompt_for_mfacode", a)
    }
}

fn seqpacket_pair() -> (OwnedFd, OwnedFd) {
    let mut fds = [0 as libc::c_int; 2];
    let r = unsafe {
        libc::socketpair(libc::AF_UNIX, libc::SOCK_SEQPACKET | libc::SOCK_CLOEXEC, 0, fds.as_mut_ptr())
    };
    assert!(r == 0, "harness: socketpair failed");
    unsafe { (OwnedFd::from_raw_fd(fds[0]), OwnedFd::from_raw_fd(fds[1])) }
}

/// What the real system does with an unreadable database: `unwrap_or_default()`, i.e. empty
/// (core.rs, `RequestOptions::Main`). A panic in the parser is reported as such.
type ParsedDb = (Vec<EtcUser>, &'static str, Vec<EtcShadow>, &'static str, Option<String>);

fn parse_db(passwd: &[String], shadow: &[String]) -> ParsedDb {
    let ptext = join_lines(passwd);
    let stext = join_lines(shadow);
    let (users, pres) = match guarded(|| parse_etc_passwd(ptext.as_bytes())) {
        Ok(Ok(u)) => (u, "ok"),
        Ok(Err(_)) => (Vec::new(), "error"),
        Err(_) => (Vec::new(), "panic"),
    };
    let (sh, sres) = match guarded(|| parse_etc_shadow(stext.as_bytes())) {
        Ok(Ok(s)) => (s, "ok"),
        Ok(Err(_)) => (Vec::new(), "error"),
        Err(_) => (Vec::new(), "panic"),
    };
    (users, pres, sh, sres, take_panic())
}

fn join_lines(lines: &[String]) -> String {
    let mut s = String::new();
    for l in lines {
        s.push_str(l);
        s.push('\n');
    }
    s
}

pub fn run(sc: &Scenario) -> RunOutcome {
    // The module caches its daemon connection per thread; every run is a fresh PAM session.
    let _ = core::CLIENT.replace(None);

    let _ = take_panic();
    let (users, passwd_parse, shadow, shadow_parse, parse_panic_msg) = parse_db(&sc.passwd, &sc.shadow);

    let offset = UtcOffset::from_whole_seconds(sc.offset_min * 60).unwrap_or(UtcOffset::UTC);
    let now = OffsetDateTime::from_unix_timestamp(sc.now)
        .unwrap_or(OffsetDateTime::UNIX_EPOCH)
        .to_offset(offset);

    let mut client_end: Option<UnixStream> = None;
    let mut daemon_end = DaemonEnd { fd: None, drained: Vec::new() };
    let mut drop_at = None;
    let mut connect_at = usize::MAX;

    if let Some(d) = &sc.daemon {
        let (c, s) = seqpacket_pair();
        for p in &d.packets {
            for seg in p.segments() {
                assert!(seg.len() < 16 * 1024, "harness: segment too large");
                let n = unsafe {
                    libc::send(
                        s.as_raw_fd(),
                        seg.as_ptr() as *const libc::c_void,
                        seg.len(),
                        libc::MSG_DONTWAIT | libc::MSG_NOSIGNAL,
                    )
                };
                assert!(n == seg.len() as isize, "harness: could not queue a daemon segment");
            }
        }
        // The daemon has nothing more to say: the client sees end-of-stream after the script.
        unsafe { libc::shutdown(s.as_raw_fd(), libc::SHUT_WR) };
        daemon_end.fd = Some(s);
        match d.close {
            Close::EndOfScript => {}
            Close::BeforeFirstRequest => daemon_end.fd = None,
            Close::DuringCallback(n) => drop_at = Some(n),
        }
        client_end = Some(UnixStream::from(c));
        connect_at = d.connect_at;
    }

    let shared = Rc::new(RefCell::new(Shared {
        daemon: daemon_end,
        callbacks: 0,
        drop_at,
        dropped_now: false,
    }));

    clock::begin();
    clock::pause();

    let mut outcomes = Vec::with_capacity(sc.calls.len());
    for (j, call) in sc.calls.iter().enumerate() {
        // From `connect_at` on the daemon is reachable: every call in which the module tries to
        // connect gets a connection, until it has cached one (it then ignores the option). The
        // module may return before it tries (application-side error); the duplicate descriptor
        // handed over is then simply dropped and the next call gets another one.
        let cached = core::CLIENT.with_borrow(|c| c.is_some());
        if cached {
            client_end = None;
        }
        let socket = if j >= connect_at && !cached {
            client_end.as_ref().map(|c| c.try_clone().expect("harness: dup of the client end failed"))
        } else {
            None
        };
        let req_opt = RequestOptions::Test {
            socket,
            users: users.clone(),
            shadow: shadow.clone(),
        };
        let opts = ModuleOptions {
            debug: false,
            use_first_pass: call.use_first_pass,
            ignore_unknown_user: call.ignore_unknown_user,
        };
        let h = SimHandler {
            script: call.handler.clone(),
            st: RefCell::new(HState::default()),
            shared: shared.clone(),
        };
        shared.borrow_mut().dropped_now = false;

        clock::resume();
        let res = guarded(|| match call.entry {
            Entry::Authenticate => core::sm_authenticate(&h, &opts, req_opt, now),
            Entry::AcctMgmt => core::acct_mgmt(&h, &opts, req_opt, now),
            Entry::OpenSession => core::sm_open_session(&h, &opts, req_opt),
        });
        clock::pause();

        let mut sh = shared.borrow_mut();
        sh.daemon.drain();
        let requests = std::mem::take(&mut sh.daemon.drained);
        let log = std::mem::take(&mut h.st.borrow_mut().log);
        let panic_msg = if res.is_err() { take_panic() } else { None };
        outcomes.push(CallOutcome {
            code: res.ok().map(|c| c as u8),
            panic_msg,
            requests,
            log,
            daemon_dropped_during: sh.dropped_now,
        });
    }

    let st = clock::end();
    // end of the PAM session: drop the cached connection (closes the client end)
    let _ = core::CLIENT.replace(None);
    drop(client_end);
    shared.borrow_mut().daemon.fd = None;

    RunOutcome {
        calls: outcomes,
        passwd_parse,
        shadow_parse,
        parse_panic_msg,
        sim_elapsed_ns: st.elapsed_ns,
        clock_observations: st.observations,
        sleeps: st.sleeps,
        slept_ns: st.slept_ns,
    }
}

pub fn code_name(c: Option<u8>) -> String {
    match c {
        None => "PANIC".into(),
        Some(c) => format!("{:?}", code_from_u8(c)),
    }
}
