//! SplitMix64. One integer decides a run; never drawn from in logging paths.

#[derive(Clone)]
pub struct Rng(u64);

impl Rng {
    pub fn new(seed: u64) -> Self {
        // one scramble so that consecutive run seeds do not give correlated first draws
        let mut r = Rng(seed ^ 0x9E37_79B9_7F4A_7C15);
        r.next_u64();
        r
    }

    pub fn next_u64(&mut self) -> u64 {
        self.0 = self.0.wrapping_add(0x9E37_79B9_7F4A_7C15);
        let mut z = self.0;
        z = (z ^ (z >> 30)).wrapping_mul(0xBF58_476D_1CE4_E5B9);
        z = (z ^ (z >> 27)).wrapping_mul(0x94D0_49BB_1331_11EB);
        z ^ (z >> 31)
    }

    /// uniform in 0..n (n > 0)
    pub fn below(&mut self, n: u64) -> u64 {
        debug_assert!(n > 0);
        // multiply-shift; bias is irrelevant at these sizes
        ((self.next_u64() as u128 * n as u128) >> 64) as u64
    }

    pub fn range(&mut self, lo: i64, hi_incl: i64) -> i64 {
        lo + self.below((hi_incl - lo + 1) as u64) as i64
    }

    /// true with probability pct/100
    pub fn pct(&mut self, pct: u64) -> bool {
        self.below(100) < pct
    }

    pub fn pick<'a, T>(&mut self, xs: &'a [T]) -> &'a T {
        &xs[self.below(xs.len() as u64) as usize]
    }

    /// index drawn according to integer weights
    pub fn weighted(&mut self, weights: &[u32]) -> usize {
        let total: u64 = weights.iter().map(|w| *w as u64).sum();
        let mut x = self.below(total);
        for (i, w) in weights.iter().enumerate() {
            if x < *w as u64 {
                return i;
            }
            x -= *w as u64;
        }
        weights.len() - 1
    }
}

/// FNV-1a 64, used for trace / script / shape digests.
pub fn fnv64(bytes: &[u8]) -> u64 {
    let mut h: u64 = 0xcbf2_9ce4_8422_2325;
    for b in bytes {
        h ^= *b as u64;
        h = h.wrapping_mul(0x0000_0100_0000_01b3);
    }
    h
}
