//! C43 "PAM fails closed" — deterministic simulation of kanidm's PAM module core
//! (`pam_sparkle_common::core`) against a scripted resolver daemon and scripted local
//! passwd/shadow databases. See /verif/tools/ENGINE_CONTRACT.md for the
//! command contract; the driver is /verif/sim-ext/C43.sh.
//!
//! One #[test] is the entry point of every worker / replay / minimise process; what it does is
//! selected by environment variables (C43_MODE …).
#![allow(clippy::unwrap_used, clippy::expect_used, clippy::panic)]

pub mod clock;
pub mod exec;
pub mod fixtures;
pub mod gen;
pub mod minimise;
pub mod model;
pub mod prng;
pub mod scenario;

use exec::RunOutcome;
use model::{CallFacts, Consumed, HashClass};
use prng::fnv64;
use scenario::*;
use serde_json::{json, Value};
use std::collections::BTreeMap;
use std::io::Write;

fn env(k: &str) -> Option<String> {
    std::env::var(k).ok().filter(|s| !s.is_empty())
}

fn env_u64(k: &str, default: u64) -> u64 {
    env(k).map(|s| s.parse().unwrap_or_else(|_| panic!("bad {k}"))).unwrap_or(default)
}

pub fn run_seed(verif_seed: u64, i: u64) -> u64 {
    verif_seed.wrapping_mul(1 << 32).wrapping_add(i)
}

/// Full trace of a run: the script, and everything observable that the module did.
pub fn trace(sc: &Scenario, out: &RunOutcome, fx: &[CallFacts]) -> String {
    let mut t = sc.canonical();
    t.push_str(&format!("|db:{}:{}", out.passwd_parse, out.shadow_parse));
    for (co, f) in out.calls.iter().zip(fx.iter()) {
        t.push_str(&format!(
            "|code={} reach={} dropped={} req={:?} consumed={:?} hev={:?} msgs={:?}",
            exec::code_name(co.code),
            f.reachable,
            co.daemon_dropped_during,
            co.requests,
            f.consumed.iter().map(|c| c.class()).collect::<Vec<_>>(),
            co.log.events,
            co.log.messages_shown,
        ));
    }
    t.push_str(&format!(
        "|simclock={}ns obs={} sleeps={} slept={}ns",
        out.sim_elapsed_ns, out.clock_observations, out.sleeps, out.slept_ns
    ));
    t
}

fn expiry_class(sv: &model::ShadowView) -> &'static str {
    match (sv.has_expiry, sv.expired, sv.expiry_delta_s) {
        (false, _, _) => "none",
        (true, None, _) => "zero-or-invalid",
        (true, Some(true), Some(0)) => "at-midnight",
        (true, Some(true), Some(d)) if d < 86400 => "expired-today",
        (true, Some(true), _) => "expired",
        (true, Some(false), Some(d)) if d >= -86400 => "last-day",
        (true, Some(false), _) => "future",
    }
}

/// A categorical description of what a run exercised (independent of names, session ids, byte
/// offsets): two runs with the same shape took the module through the same decisions.
pub fn shape(sc: &Scenario, out: &RunOutcome, fx: &[CallFacts]) -> String {
    let mut s = String::new();
    for ((call, co), f) in sc.calls.iter().zip(out.calls.iter()).zip(fx.iter()) {
        s.push_str(&format!(
            "[{:?} ufp={} iuu={} reach={} code={} ",
            call.entry,
            call.use_first_pass as u8,
            call.ignore_unknown_user as u8,
            f.reachable as u8,
            exec::code_name(co.code)
        ));
        if f.reachable {
            for c in &f.consumed {
                s.push_str(&format!("{}<{}>,", c.class(), c.pkt_classes().join("+")));
            }
            if co.daemon_dropped_during {
                s.push_str("dropped,");
            }
        } else if let Some(sv) = &f.shadow {
            let pw = match (&sv.hash, co.log.secrets_given.is_empty()) {
                (_, true) => "none",
                (Some(HashClass::Supported(i)), false) => {
                    if co.log.secrets_given.iter().any(|x| x == fixtures::SUPPORTED[*i].1) { "right" } else { "wrong" }
                }
                _ => "some",
            };
            let scheme = match &sv.hash {
                Some(HashClass::Supported(i)) => fixtures::SUPPORTED[*i].0,
                Some(h) => h.name(),
                None => "-",
            };
            s.push_str(&format!(
                "pw={} sh={} hash={} pwd={} exp={}",
                sv.in_passwd as u8, sv.in_shadow as u8, scheme, pw, expiry_class(sv)
            ));
        } else {
            s.push_str("no-account");
        }
        s.push_str(&format!(" h={}]", co.log.events.join(",")));
    }
    s
}

#[derive(Default)]
pub struct Coverage {
    pub runs: u64,
    pub nontrivial: u64,
    pub auth_calls: u64,
    pub calls: u64,
    pub faults: BTreeMap<String, u64>,
    pub probes: BTreeMap<String, u64>,
    pub results: BTreeMap<String, u64>,
    pub panics: BTreeMap<String, u64>,
    pub sim_time_ns: u128,
    pub clock_observations: u64,
}

fn bump(m: &mut BTreeMap<String, u64>, k: &str) {
    *m.entry(k.to_string()).or_insert(0) += 1;
}

pub const FAULT_KINDS: &[&str] = &[
    "frame_split_across_reads", "frame_truncated", "garbage_bytes", "coalesced_extra_frame",
    "wrong_kind_reply", "error_reply", "undecodable_frame", "eof_disconnect", "eof_mid_frame",
    "daemon_closed_before_first_request", "daemon_closed_during_callback", "handler_error",
    "handler_no_answer", "passwd_parse_error", "shadow_parse_error", "db_parse_panic",
    "locked_hash_attempt", "empty_hash_attempt", "unsupported_hash_attempt", "mangled_hash_attempt",
    "expired_account_attempt", "unknown_user_attempt", "wrong_password_attempt",
];

pub const PROBE_KINDS: &[&str] = &[
    "auth_success_via_daemon", "auth_success_via_shadow", "shadow_success_sha512", "shadow_success_sha256",
    "shadow_success_yescrypt", "success_after_split_frame", "success_after_mfa_poll_wait",
    "success_after_device_grant", "success_after_setup_pin", "stacked_authtok_consumed",
    "expiry_clock_exactly_at_midnight", "success_one_second_before_expiry", "empty_cleartext_success",
    "shadow_success_with_aged_out_password", "cached_connection_reused_by_later_call",
    "reachable_call_sent_no_request", "ignore_unknown_user_returned_ignore", "module_panic",
    "simulated_timeout_expired", "mfa_poll_sleep_simulated", "acct_mgmt_success",
    "open_session_success_daemon_unreachable", "daemon_appeared_mid_session",
    "explicit_success_frame_never_consumed", "auth_denied_by_daemon", "auth_unknown_from_daemon",
];

impl Coverage {
    pub fn record(&mut self, sc: &Scenario, out: &RunOutcome, fx: &[CallFacts]) -> bool {
        self.runs += 1;
        self.sim_time_ns += out.sim_elapsed_ns as u128;
        self.clock_observations += out.clock_observations;
        let mut nontrivial = false;
        match out.passwd_parse {
            "error" => bump(&mut self.faults, "passwd_parse_error"),
            "panic" => bump(&mut self.faults, "db_parse_panic"),
            _ => {}
        }
        match out.shadow_parse {
            "error" => bump(&mut self.faults, "shadow_parse_error"),
            "panic" => bump(&mut self.faults, "db_parse_panic"),
            _ => {}
        }
        if let Some(m) = &out.parse_panic_msg {
            let m: String = m.chars().take(140).collect();
            bump(&mut self.panics, &format!("db parser: {m}"));
        }
        if out.clock_observations > 30 {
            bump(&mut self.probes, "simulated_timeout_expired");
        }
        if out.sleeps > 0 {
            bump(&mut self.probes, "mfa_poll_sleep_simulated");
        }
        if let Some(d) = &sc.daemon {
            if d.connect_at > 0 && out.calls.len() > d.connect_at {
                bump(&mut self.probes, "daemon_appeared_mid_session");
            }
            if d.close == Close::BeforeFirstRequest {
                bump(&mut self.faults, "daemon_closed_before_first_request");
            }
            // a Success frame was in the script but the module never got to it
            let has_success = d.packets.iter().any(|p| matches!(p, Pkt::Frame(Reply::Success { .. })));
            let consumed_success = fx.iter().any(|f| {
                f.consumed.iter().any(|c| matches!(c, Consumed::Reply { explicit_success: true, .. }))
            });
            if has_success && !consumed_success {
                bump(&mut self.probes, "explicit_success_frame_never_consumed");
            }
        }
        for (j, ((call, co), f)) in sc.calls.iter().zip(out.calls.iter()).zip(fx.iter()).enumerate() {
            self.calls += 1;
            bump(&mut self.results, &format!("{:?}:{}", call.entry, exec::code_name(co.code)));
            let success = co.code == Some(0);
            if co.code.is_none() {
                bump(&mut self.probes, "module_panic");
                let m = co.panic_msg.clone().unwrap_or_default();
                let m: String = m.chars().take(140).collect();
                bump(&mut self.panics, &format!("module: {m}"));
            }
            if co.code == Some(25) && call.ignore_unknown_user {
                bump(&mut self.probes, "ignore_unknown_user_returned_ignore");
            }
            if co.log.errors_returned > 0 {
                bump(&mut self.faults, "handler_error");
            }
            if co.log.events.iter().any(|e| e.ends_with("->None")) {
                bump(&mut self.faults, "handler_no_answer");
            }
            if co.log.events.iter().any(|e| e == "authtok->Some") {
                bump(&mut self.probes, "stacked_authtok_consumed");
            }
            if co.daemon_dropped_during {
                bump(&mut self.faults, "daemon_closed_during_callback");
            }
            if call.entry == Entry::AcctMgmt && success {
                bump(&mut self.probes, "acct_mgmt_success");
            }
            if call.entry == Entry::OpenSession && success && !f.reachable {
                bump(&mut self.probes, "open_session_success_daemon_unreachable");
            }
            if f.reachable {
                if co.requests.is_empty() {
                    bump(&mut self.probes, "reachable_call_sent_no_request");
                } else {
                    nontrivial = true;
                    if sc.daemon.as_ref().map(|d| j > d.connect_at).unwrap_or(false) {
                        bump(&mut self.probes, "cached_connection_reused_by_later_call");
                    }
                }
                for c in &f.consumed {
                    let cls = c.pkt_classes().join("+");
                    if cls.contains("split:") {
                        bump(&mut self.faults, "frame_split_across_reads");
                    }
                    if cls.contains("trunc:") {
                        bump(&mut self.faults, "frame_truncated");
                    }
                    if cls.contains("raw") {
                        bump(&mut self.faults, "garbage_bytes");
                    }
                    if cls.contains("coalesce:") {
                        bump(&mut self.faults, "coalesced_extra_frame");
                    }
                    match c {
                        Consumed::Undecodable { .. } => bump(&mut self.faults, "undecodable_frame"),
                        Consumed::Eof { partial_bytes: 0, .. } => bump(&mut self.faults, "eof_disconnect"),
                        Consumed::Eof { .. } => bump(&mut self.faults, "eof_mid_frame"),
                        Consumed::Reply { kind, .. } => {
                            let step = matches!(
                                kind.as_str(),
                                "Success" | "Denied" | "Unknown" | "Password" | "Pin" | "MFACode" | "MFAPoll"
                                    | "MFAPollWait" | "SetupPin" | "DeviceAuthorizationGrant"
                            );
                            if kind == "Error" {
                                bump(&mut self.faults, "error_reply");
                            } else {
                                let expected = match call.entry {
                                    Entry::Authenticate => step,
                                    Entry::AcctMgmt => kind.starts_with("PamStatus"),
                                    Entry::OpenSession => kind == "Ok",
                                };
                                if !expected {
                                    bump(&mut self.faults, "wrong_kind_reply");
                                }
                            }
                            if call.entry == Entry::Authenticate && kind == "Denied" {
                                bump(&mut self.probes, "auth_denied_by_daemon");
                            }
                            if call.entry == Entry::Authenticate && kind == "Unknown" {
                                bump(&mut self.probes, "auth_unknown_from_daemon");
                            }
                        }
                    }
                }
                if call.entry == Entry::Authenticate {
                    self.auth_calls += 1;
                    if success {
                        bump(&mut self.probes, "auth_success_via_daemon");
                        let kinds: Vec<String> = f.consumed.iter().map(|c| c.class()).collect();
                        let classes: Vec<String> = f.consumed.iter().map(|c| c.pkt_classes().join("+")).collect();
                        if classes.iter().any(|c| c.contains("split:")) {
                            bump(&mut self.probes, "success_after_split_frame");
                        }
                        if kinds.iter().any(|k| k == "MFAPollWait") {
                            bump(&mut self.probes, "success_after_mfa_poll_wait");
                        }
                        if kinds.iter().any(|k| k == "DeviceAuthorizationGrant") {
                            bump(&mut self.probes, "success_after_device_grant");
                        }
                        if kinds.iter().any(|k| k == "SetupPin") {
                            bump(&mut self.probes, "success_after_setup_pin");
                        }
                    }
                }
            } else if call.entry == Entry::Authenticate {
                self.auth_calls += 1;
                if let Some(sv) = &f.shadow {
                    nontrivial = true;
                    if !sv.in_passwd || !sv.in_shadow {
                        bump(&mut self.faults, "unknown_user_attempt");
                    } else {
                        match &sv.hash {
                            Some(HashClass::Locked) => bump(&mut self.faults, "locked_hash_attempt"),
                            Some(HashClass::Empty) => bump(&mut self.faults, "empty_hash_attempt"),
                            Some(HashClass::Unsupported) => bump(&mut self.faults, "unsupported_hash_attempt"),
                            Some(HashClass::Mangled) => bump(&mut self.faults, "mangled_hash_attempt"),
                            Some(HashClass::Supported(i)) => {
                                let clear = fixtures::SUPPORTED[*i].1;
                                if !co.log.secrets_given.is_empty() && !co.log.secrets_given.iter().any(|s| s == clear) {
                                    bump(&mut self.faults, "wrong_password_attempt");
                                }
                            }
                            None => {}
                        }
                        if sv.expired == Some(true) {
                            bump(&mut self.faults, "expired_account_attempt");
                        }
                        if sv.expiry_delta_s == Some(0) {
                            bump(&mut self.probes, "expiry_clock_exactly_at_midnight");
                        }
                    }
                    if success {
                        bump(&mut self.probes, "auth_success_via_shadow");
                        if let Some(HashClass::Supported(i)) = &sv.hash {
                            let (scheme, clear, _) = fixtures::SUPPORTED[*i];
                            let p = if scheme.starts_with("sha512") {
                                "shadow_success_sha512"
                            } else if scheme.starts_with("sha256") {
                                "shadow_success_sha256"
                            } else {
                                "shadow_success_yescrypt"
                            };
                            bump(&mut self.probes, p);
                            if clear.is_empty() {
                                bump(&mut self.probes, "empty_cleartext_success");
                            }
                        }
                        if sv.expiry_delta_s == Some(-1) {
                            bump(&mut self.probes, "success_one_second_before_expiry");
                        }
                        if sv.password_aged_out {
                            bump(&mut self.probes, "shadow_success_with_aged_out_password");
                        }
                    }
                }
            }
        }
        if nontrivial {
            self.nontrivial += 1;
        }
        nontrivial
    }

    fn to_json(&self) -> Value {
        json!({
            "runs": self.runs,
            "nontrivial": self.nontrivial,
            "calls": self.calls,
            "auth_calls": self.auth_calls,
            "faults": self.faults,
            "probes": self.probes,
            "results": self.results,
            "panics": self.panics,
            "sim_time_ns": self.sim_time_ns as u64,
            "clock_observations": self.clock_observations,
        })
    }
}

fn cfg_json(tier: &str) -> Value {
    let k = gen::Knobs::for_tier(tier);
    json!({
        "tier": tier,
        "max_script": k.max_script,
        "max_calls": k.max_calls,
        "clock_step_ms": clock::STEP_NS / 1_000_000,
        "transport": "AF_UNIX SOCK_SEQPACKET socketpair, script pre-written, one segment per read()",
        "kanidm_src": option_env!("C43_KANIDM_SRC").unwrap_or("/repo"),
    })
}

fn sample_json(seed: u64, i: u64, tier: &str, sc: &Scenario, out: &RunOutcome) -> Value {
    let ev = sc.to_events();
    let first: Vec<&Event> = ev.iter().take(8).collect();
    json!({
        "i": i,
        "seed": seed,
        "cfg": cfg_json(tier),
        "events_total": ev.len(),
        "first_events": first,
        "result_codes": out.calls.iter().map(|c| exec::code_name(c.code)).collect::<Vec<_>>(),
    })
}

fn write_u64s(path: &str, v: &[u64]) {
    let mut f = std::io::BufWriter::new(std::fs::File::create(path).expect("create digest file"));
    for x in v {
        f.write_all(&x.to_le_bytes()).expect("write digest file");
    }
}

fn read_u64s(path: &std::path::Path) -> Vec<u64> {
    let b = std::fs::read(path).expect("read digest file");
    b.chunks_exact(8).map(|c| u64::from_le_bytes(c.try_into().unwrap())).collect()
}

/// Panics are values here (a panicking module call is a non-success result); keep stderr quiet.
fn quiet_panics() {
    std::panic::set_hook(Box::new(|info| {
        if exec::in_guarded() {
            exec::note_panic(info.to_string().replace('\n', " "));
        } else {
            eprintln!("{info}");
        }
    }));
}

fn mode_batch() {
    let verif_seed = env_u64("C43_SEED", 1);
    let n = env_u64("C43_N", 1000);
    let workers = env_u64("C43_WORKERS", 1).max(1);
    let worker = env_u64("C43_WORKER", 0);
    let tier = env("C43_TIER").unwrap_or_else(|| "quick".into());
    let out_dir = env("C43_OUT").expect("C43_OUT");
    let wall_cap = env("C43_WALL_CAP_S").map(|s| s.parse::<f64>().expect("bad C43_WALL_CAP_S"));
    let want_digests = env("C43_DIGESTS").is_some();
    let knobs = gen::Knobs::for_tier(&tier);

    clock::self_test().unwrap_or_else(|e| panic!("harness: {e}"));
    quiet_panics();

    let t0 = clock::real_monotonic_s();
    let mut cov = Coverage::default();
    let mut scripts: Vec<u64> = Vec::new();
    let mut shapes: Vec<u64> = Vec::new();
    let mut violations: Vec<Value> = Vec::new();
    let mut violation_count = 0u64;
    let mut samples: Vec<Value> = Vec::new();
    let mut digests = String::new();
    let mut stopped_early_at: Option<u64> = None;

    let mut i = worker;
    let mut done = 0u64;
    while i < n {
        if done % 256 == 0 {
            if let Some(cap) = wall_cap {
                if clock::real_monotonic_s() - t0 > cap {
                    stopped_early_at = Some(i);
                    break;
                }
            }
        }
        let seed = run_seed(verif_seed, i);
        let sc = gen::generate(seed, &knobs);
        let out = exec::run(&sc);
        let fx = model::facts(&sc, &out);
        let nontrivial = cov.record(&sc, &out, &fx);
        if nontrivial {
            scripts.push(fnv64(sc.canonical().as_bytes()));
            shapes.push(fnv64(shape(&sc, &out, &fx).as_bytes()));
        }
        if want_digests {
            digests.push_str(&format!("{i} {:016x}\n", fnv64(trace(&sc, &out, &fx).as_bytes())));
        }
        if i < 3 {
            samples.push(sample_json(seed, i, &tier, &sc, &out));
        }
        if let Some(v) = model::check(&sc, &out) {
            violation_count += 1;
            if violations.len() < 50 {
                violations.push(json!({
                    "i": i, "seed": seed, "oracle": v.oracle, "signature": v.signature,
                    "step": v.step, "summary": v.summary, "events": sc.to_events(),
                }));
            }
        }
        done += 1;
        i += workers;
    }
    let wall = clock::real_monotonic_s() - t0;

    scripts.sort_unstable();
    scripts.dedup();
    shapes.sort_unstable();
    shapes.dedup();
    write_u64s(&format!("{out_dir}/w{worker}.scripts.bin"), &scripts);
    write_u64s(&format!("{out_dir}/w{worker}.shapes.bin"), &shapes);
    if want_digests {
        std::fs::write(format!("{out_dir}/w{worker}.digests"), digests).expect("write digests");
    }
    let summary = json!({
        "worker": worker, "workers": workers, "seed": verif_seed, "tier": tier, "n": n,
        "coverage": cov.to_json(), "violation_count": violation_count, "violations": violations,
        "samples": samples, "wall_s": wall, "stopped_early_at": stopped_early_at, "cfg": cfg_json(&tier),
        "fault_kinds": FAULT_KINDS, "probe_kinds": PROBE_KINDS,
    });
    std::fs::write(format!("{out_dir}/w{worker}.json"), serde_json::to_string(&summary).unwrap()).expect("write summary");
}

fn mode_merge() {
    let out_dir = env("C43_OUT").expect("C43_OUT");
    let mut scripts = Vec::new();
    let mut shapes = Vec::new();
    for e in std::fs::read_dir(&out_dir).expect("read out dir") {
        let p = e.unwrap().path();
        let name = p.file_name().unwrap().to_string_lossy().to_string();
        if name.ends_with(".scripts.bin") {
            scripts.extend(read_u64s(&p));
        } else if name.ends_with(".shapes.bin") {
            shapes.extend(read_u64s(&p));
        }
    }
    scripts.sort_unstable();
    scripts.dedup();
    shapes.sort_unstable();
    shapes.dedup();
    let v = json!({"distinct_scripts": scripts.len(), "distinct_shapes": shapes.len()});
    std::fs::write(format!("{out_dir}/merge.json"), v.to_string()).expect("write merge");
}

fn load_replay(path: &str) -> (Value, Scenario) {
    let text = std::fs::read_to_string(path).unwrap_or_else(|e| panic!("harness: cannot read {path}: {e}"));
    let v: Value = serde_json::from_str(&text).unwrap_or_else(|e| panic!("harness: {path} is not JSON: {e}"));
    let ev: Vec<Event> = serde_json::from_value(v["events"].clone())
        .unwrap_or_else(|e| panic!("harness: {path}: bad events: {e}"));
    (v, Scenario::from_events(&ev))
}

fn mode_replay() {
    let path = env("C43_REPLAY").expect("C43_REPLAY");
    let out_dir = env("C43_OUT").expect("C43_OUT");
    clock::self_test().unwrap_or_else(|e| panic!("harness: {e}"));
    quiet_panics();
    let (file, sc) = load_replay(&path);
    println!("replay {path}");
    println!("  recorded: oracle={} signature={}", file["oracle"], file["signature"]);
    println!("  clock: now={} (unix s), offset {} min", sc.now, sc.offset_min);
    for l in &sc.passwd {
        println!("  passwd: {l}");
    }
    for l in &sc.shadow {
        println!("  shadow: {l}");
    }
    match &sc.daemon {
        None => println!("  daemon: unreachable for the whole session"),
        Some(d) => {
            println!("  daemon: reachable from call {}, close={:?}", d.connect_at, d.close);
            for (k, p) in d.packets.iter().enumerate() {
                println!("    script[{k}]: {p:?}");
            }
        }
    }
    let out = exec::run(&sc);
    let fx = model::facts(&sc, &out);
    println!("  database parse: passwd={} shadow={}", out.passwd_parse, out.shadow_parse);
    if let Some(m) = &out.parse_panic_msg {
        println!("    parser panic: {m}");
    }
    for (j, ((call, co), f)) in sc.calls.iter().zip(out.calls.iter()).zip(fx.iter()).enumerate() {
        println!(
            "  call {j}: {:?} use_first_pass={} ignore_unknown_user={} user={:?} daemon_reachable={}",
            call.entry, call.use_first_pass, call.ignore_unknown_user, call.handler.account, f.reachable
        );
        println!("    application side: {:?}", co.log.events);
        if !co.log.messages_shown.is_empty() {
            println!("    shown to the user: {:?}", co.log.messages_shown);
        }
        for (r, c) in co.requests.iter().zip(f.consumed.iter()) {
            println!("    -> {}    <- {} {:?}", r.label(), c.class(), c.pkt_classes());
        }
        if co.daemon_dropped_during {
            println!("    (daemon went away during this call)");
        }
        if let (false, Some(sv)) = (f.reachable, &f.shadow) {
            println!(
                "    local view: in passwd={} in shadow={} hash={} expired={:?} (delta {:?} s)",
                sv.in_passwd,
                sv.in_shadow,
                sv.hash.as_ref().map(|h| h.name()).unwrap_or("-"),
                sv.expired,
                sv.expiry_delta_s
            );
        }
        println!("    => {}", exec::code_name(co.code));
        if let Some(m) = &co.panic_msg {
            println!("    panic: {m}");
        }
    }
    let v = model::check(&sc, &out);
    let digest = format!("{:016x}", fnv64(trace(&sc, &out, &fx).as_bytes()));
    let res = match &v {
        Some(v) => {
            println!("  VIOLATION oracle={} signature={}", v.oracle, v.signature);
            println!("  {}", v.summary);
            let same = file["oracle"] == json!(v.oracle) && file["signature"] == json!(v.signature);
            json!({"violation": true, "same_as_recorded": same, "oracle": v.oracle, "signature": v.signature,
                   "step": v.step, "summary": v.summary, "trace_digest": digest})
        }
        None => {
            println!("  no violation: the property held on this script");
            json!({"violation": false, "trace_digest": digest})
        }
    };
    std::fs::write(format!("{out_dir}/replay.json"), res.to_string()).expect("write replay result");
}

fn mode_minimise() {
    let path = env("C43_REPLAY").expect("C43_REPLAY");
    let dest = env("C43_MIN_OUT").expect("C43_MIN_OUT");
    clock::self_test().unwrap_or_else(|e| panic!("harness: {e}"));
    quiet_panics();
    let (mut file, sc) = load_replay(&path);
    let out = exec::run(&sc);
    let v0 = model::check(&sc, &out).unwrap_or_else(|| panic!("harness: candidate {path} does not violate anything"));
    let before = sc.to_events().len();
    let (min, tests) = minimise::minimise(&sc, &v0);
    let out = exec::run(&min);
    let v = model::check(&min, &out).expect("harness: minimised script lost the violation");
    assert!(v.oracle == v0.oracle && v.signature == v0.signature, "harness: minimiser changed the violation");
    file["oracle"] = json!(v.oracle);
    file["signature"] = json!(v.signature);
    file["events"] = serde_json::to_value(min.to_events()).unwrap();
    file["violation"] = json!({"step": v.step, "summary": v.summary});
    file["minimised"] = json!({"events_before": before, "events_after": min.to_events().len(), "candidate_runs": tests});
    std::fs::write(&dest, serde_json::to_string_pretty(&file).unwrap()).expect("write minimised replay");
}

/// Checks on the harness itself (not on kanidm): time seam, fixture table, wire model.
fn mode_selftest() {
    use sparkle_unix_common::unix_passwd::CryptPw;
    use std::str::FromStr;
    let out_dir = env("C43_OUT").expect("C43_OUT");
    let mut problems: Vec<String> = Vec::new();
    if let Err(e) = clock::self_test() {
        problems.push(e);
    }
    // Every fixture pair must be accepted by kanidm's verifier, and a wrong password must not:
    // otherwise the table (computed by libcrypt) and the oracle built on it would be meaningless.
    let mut checked = 0;
    for (scheme, clear, hash) in fixtures::SUPPORTED {
        let pw = CryptPw::from_str(hash).unwrap();
        if !pw.is_valid() {
            problems.push(format!("fixture {scheme} is not recognised as supported"));
        }
        if !pw.check_pw(clear) {
            problems.push(format!("fixture {scheme}/{clear:?}: libcrypt hash is rejected by kanidm's verifier"));
        }
        if pw.check_pw(&format!("{clear}x")) {
            problems.push(format!("fixture {scheme}/{clear:?}: wrong password accepted"));
        }
        if model::classify_hash(hash) == model::HashClass::Mangled {
            problems.push(format!("fixture {scheme}: classified as mangled"));
        }
        checked += 1;
    }
    for (scheme, _, hash) in fixtures::UNSUPPORTED {
        if CryptPw::from_str(hash).unwrap().is_valid() {
            problems.push(format!("unsupported fixture {scheme} is recognised as supported by kanidm"));
        }
        if model::classify_hash(hash) != model::HashClass::Unsupported {
            problems.push(format!("unsupported fixture {scheme}: misclassified by the oracle"));
        }
    }
    // wire model: split frames reassemble, truncated ones do not
    let d = Daemon {
        connect_at: 0,
        close: Close::EndOfScript,
        packets: vec![
            Pkt::Split(Reply::Password { sid: 1 }, 3),
            Pkt::Coalesce(Reply::Success { sid: 1 }, Reply::Denied { sid: 1 }),
            Pkt::Trunc(Reply::Success { sid: 1 }, 9),
        ],
    };
    let mut w = model::Wire::new(&d);
    let a = w.consume().class();
    let b = w.consume().class();
    let c = w.consume().class();
    if (a.as_str(), b.as_str(), c.as_str()) != ("Password", "Success", "eof-mid-frame") {
        problems.push(format!("wire model: got {a} {b} {c}"));
    }
    // events round trip
    let k = gen::Knobs::for_tier("quick");
    for i in 0..200 {
        let sc = gen::generate(run_seed(1, i), &k);
        let ev = serde_json::to_string(&sc.to_events()).unwrap();
        let back: Vec<Event> = serde_json::from_str(&ev).unwrap();
        if Scenario::from_events(&back) != sc {
            problems.push(format!("events round trip differs for i={i}"));
            break;
        }
    }
    let v = json!({"ok": problems.is_empty(), "problems": problems, "fixtures_checked": checked});
    std::fs::write(format!("{out_dir}/selftest.json"), v.to_string()).expect("write selftest");
}

#[test]
fn c43_entry() {
    match env("C43_MODE").as_deref() {
        Some("batch") => mode_batch(),
        Some("merge") => mode_merge(),
        Some("replay") => mode_replay(),
        Some("minimise") => mode_minimise(),
        Some("selftest") => mode_selftest(),
        None => eprintln!("c43_entry: no C43_MODE set; use /verif/sim-ext/C43.sh"),
        Some(other) => panic!("harness: unknown C43_MODE {other}"),
    }
}
