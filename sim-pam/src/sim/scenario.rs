//! The explicit script of one run: what the (simulated) resolver daemon sends and when it goes
//! away, the local passwd/shadow databases and the clock, and what the PAM application / user
//! answers. Everything is symbolic and serialisable; a replay file holds exactly this.

use crate::constants::PamResultCode;
use bytes::BytesMut;
use kanidm_proto::internal::OperationError;
use serde::{Deserialize, Serialize};
use sparkle_unix_common::json_codec::JsonCodec;
use sparkle_unix_common::unix_proto::{
    ClientRequest, ClientResponse, DeviceAuthorizationResponse, NssGroup, NssUser, PamAuthResponse,
    ProviderStatus,
};
use tokio_util::codec::Encoder;

/// One reply of the daemon, symbolic. Rendered to the real `ClientResponse` and serialised by
/// the real codec (`JsonCodec<ClientRequest, ClientResponse>`, the type the resolver uses).
#[derive(Serialize, Deserialize, Clone, Debug, PartialEq)]
pub enum Reply {
    Success { sid: u64 },
    Denied { sid: u64 },
    Unknown { sid: u64 },
    Password { sid: u64 },
    Pin { sid: u64 },
    MfaCode { sid: u64 },
    MfaPoll { sid: u64, interval: u32 },
    MfaPollWait { sid: u64 },
    SetupPin { sid: u64 },
    DeviceGrant { sid: u64, expires_in: u32, with_message: bool },
    PamStatus(Option<bool>),
    Ok,
    Error(String),
    SshKeys,
    NssAccounts,
    NssAccount(bool),
    NssGroups,
    NssGroup(bool),
    ProviderStatus,
}

impl Reply {
    pub fn kind(&self) -> &'static str {
        match self {
            Reply::Success { .. } => "Success",
            Reply::Denied { .. } => "Denied",
            Reply::Unknown { .. } => "Unknown",
            Reply::Password { .. } => "Password",
            Reply::Pin { .. } => "Pin",
            Reply::MfaCode { .. } => "MFACode",
            Reply::MfaPoll { .. } => "MFAPoll",
            Reply::MfaPollWait { .. } => "MFAPollWait",
            Reply::SetupPin { .. } => "SetupPin",
            Reply::DeviceGrant { .. } => "DeviceAuthorizationGrant",
            Reply::PamStatus(Some(true)) => "PamStatus(true)",
            Reply::PamStatus(Some(false)) => "PamStatus(false)",
            Reply::PamStatus(None) => "PamStatus(none)",
            Reply::Ok => "Ok",
            Reply::Error(_) => "Error",
            Reply::SshKeys => "SshKeys",
            Reply::NssAccounts => "NssAccounts",
            Reply::NssAccount(_) => "NssAccount",
            Reply::NssGroups => "NssGroups",
            Reply::NssGroup(_) => "NssGroup",
            Reply::ProviderStatus => "ProviderStatus",
        }
    }

    pub fn to_real(&self) -> ClientResponse {
        let step = |response: PamAuthResponse, sid: &u64| ClientResponse::PamAuthenticateStepResponse {
            response,
            session_id: *sid,
        };
        let user = || NssUser {
            name: "tobias".into(),
            uid: 1000,
            gid: 1000,
            gecos: "Tobias".into(),
            homedir: "/home/tobias".into(),
            shell: "/bin/zsh".into(),
        };
        let group = || NssGroup {
            name: "wheel".into(),
            gid: 481,
            members: vec!["tobias".into()],
        };
        match self {
            Reply::Success { sid } => step(PamAuthResponse::Success, sid),
            Reply::Denied { sid } => step(PamAuthResponse::Denied, sid),
            Reply::Unknown { sid } => step(PamAuthResponse::Unknown, sid),
            Reply::Password { sid } => step(PamAuthResponse::Password, sid),
            Reply::Pin { sid } => step(PamAuthResponse::Pin, sid),
            Reply::MfaCode { sid } => step(PamAuthResponse::MFACode { msg: "Code".into() }, sid),
            Reply::MfaPoll { sid, interval } => step(
                PamAuthResponse::MFAPoll {
                    msg: "Approve the sign-in on your device".into(),
                    polling_interval: *interval,
                },
                sid,
            ),
            Reply::MfaPollWait { sid } => step(PamAuthResponse::MFAPollWait, sid),
            Reply::SetupPin { sid } => step(PamAuthResponse::SetupPin { msg: "Set up a PIN".into() }, sid),
            Reply::DeviceGrant { sid, expires_in, with_message } => step(
                PamAuthResponse::DeviceAuthorizationGrant {
                    data: DeviceAuthorizationResponse {
                        device_code: "dc-0001".into(),
                        user_code: "ABCD-EFGH".into(),
                        verification_uri: "https://idm.example.com/device".into(),
                        verification_uri_complete: None,
                        expires_in: *expires_in,
                        interval: Some(5),
                        message: if *with_message { Some("visit the page".into()) } else { None },
                    },
                },
                sid,
            ),
            Reply::PamStatus(v) => ClientResponse::PamStatus(*v),
            Reply::Ok => ClientResponse::Ok,
            Reply::Error(which) => ClientResponse::Error(match which.as_str() {
                "backend" => OperationError::Backend,
                "sessionexpired" => OperationError::SessionExpired,
                "notauthenticated" => OperationError::NotAuthenticated,
                "accessdenied" => OperationError::AccessDenied,
                "invalidaccountstate" => OperationError::InvalidAccountState("locked".into()),
                _ => OperationError::InvalidState,
            }),
            Reply::SshKeys => ClientResponse::SshKeys(vec!["ssh-ed25519 AAAA tobias".into()]),
            Reply::NssAccounts => ClientResponse::NssAccounts(vec![user()]),
            Reply::NssAccount(some) => ClientResponse::NssAccount(if *some { Some(user()) } else { None }),
            Reply::NssGroups => ClientResponse::NssGroups(vec![group()]),
            Reply::NssGroup(some) => ClientResponse::NssGroup(if *some { Some(group()) } else { None }),
            Reply::ProviderStatus => ClientResponse::ProviderStatus(vec![ProviderStatus {
                name: "kanidm".into(),
                online: true,
            }]),
        }
    }

    /// The frame exactly as the resolver would put it on the socket.
    pub fn encode(&self) -> Vec<u8> {
        let mut codec: JsonCodec<ClientRequest, ClientResponse> = JsonCodec::default();
        let mut buf = BytesMut::new();
        codec
            .encode(self.to_real(), &mut buf)
            .expect("harness: reply does not encode");
        buf.to_vec()
    }
}

/// One element of the daemon script. Each element becomes one or two socket segments: the
/// socketpair is SOCK_SEQPACKET so that the harness, not the kernel, decides which bytes one
/// `read()` of the client returns (stream segmentation is arbitrary; this makes it a decision).
#[derive(Serialize, Deserialize, Clone, Debug, PartialEq)]
pub enum Pkt {
    /// a whole, well-formed frame in one segment
    Frame(Reply),
    /// a whole frame arriving in two segments, cut after `at` bytes
    Split(Reply, usize),
    /// only the first `keep` bytes of a frame (the daemon died mid-message, or lost the rest)
    Trunc(Reply, usize),
    /// arbitrary bytes (hex)
    Raw(String),
    /// two frames arriving in one segment (an unsolicited extra frame)
    Coalesce(Reply, Reply),
}

impl Pkt {
    pub fn class(&self) -> String {
        match self {
            Pkt::Frame(r) => r.kind().to_string(),
            Pkt::Split(r, _) => format!("split:{}", r.kind()),
            Pkt::Trunc(r, _) => format!("trunc:{}", r.kind()),
            Pkt::Raw(_) => "raw".to_string(),
            Pkt::Coalesce(a, b) => format!("coalesce:{}+{}", a.kind(), b.kind()),
        }
    }

    /// The socket segments of this element, in order.
    pub fn segments(&self) -> Vec<Vec<u8>> {
        match self {
            Pkt::Frame(r) => vec![r.encode()],
            Pkt::Split(r, at) => {
                let f = r.encode();
                let at = (*at).clamp(1, f.len() - 1);
                vec![f[..at].to_vec(), f[at..].to_vec()]
            }
            Pkt::Trunc(r, keep) => {
                let f = r.encode();
                let keep = (*keep).clamp(1, f.len() - 1);
                vec![f[..keep].to_vec()]
            }
            Pkt::Raw(hex) => {
                let b = unhex(hex);
                if b.is_empty() {
                    vec![]
                } else {
                    vec![b]
                }
            }
            Pkt::Coalesce(a, b) => {
                let mut f = a.encode();
                f.extend_from_slice(&b.encode());
                vec![f]
            }
        }
    }
}

pub fn hex(b: &[u8]) -> String {
    let mut s = String::with_capacity(b.len() * 2);
    for x in b {
        s.push_str(&format!("{x:02x}"));
    }
    s
}

pub fn unhex(s: &str) -> Vec<u8> {
    let b = s.as_bytes();
    let mut out = Vec::with_capacity(b.len() / 2);
    let mut i = 0;
    while i + 1 < b.len() {
        let hi = (b[i] as char).to_digit(16);
        let lo = (b[i + 1] as char).to_digit(16);
        if let (Some(hi), Some(lo)) = (hi, lo) {
            out.push((hi * 16 + lo) as u8);
        }
        i += 2;
    }
    out
}

/// When the daemon end of the socket goes away. In every mode the daemon has finished sending
/// when the script is exhausted (a daemon that stays connected but silent is NOT simulated: the
/// client would sit in a kernel receive timeout, which is real time).
#[derive(Serialize, Deserialize, Clone, Debug, PartialEq)]
pub enum Close {
    /// the daemon end stays open for reading; the client sees end-of-stream after the script
    EndOfScript,
    /// the daemon end is closed before the client's first request: every write fails
    BeforeFirstRequest,
    /// the daemon end is closed while the application is answering the n-th conversation
    /// callback of the session (counted over all calls, from 0)
    DuringCallback(u32),
}

#[derive(Serialize, Deserialize, Clone, Debug, PartialEq)]
pub struct Daemon {
    /// index of the call at which the module first gets a connection to the daemon; earlier
    /// calls run with the daemon unreachable. The connection is then cached by the module.
    pub connect_at: usize,
    pub packets: Vec<Pkt>,
    pub close: Close,
}

/// `Ok(value)` or `Err(PAM code)` as returned by the PAM application side.
#[derive(Serialize, Deserialize, Clone, Debug, PartialEq)]
pub enum Ans<T> {
    Ok(T),
    Err(u8),
}

#[derive(Serialize, Deserialize, Clone, Debug, PartialEq)]
pub struct Handler {
    pub account: Ans<String>,
    pub service: Ans<bool>, // Ok(has_rhost)
    pub authtok: Ans<Option<String>>,
    pub passwords: Vec<Ans<Option<String>>>,
    pub pins: Vec<Ans<Option<String>>>,
    pub mfacodes: Vec<Ans<Option<String>>>,
    /// answers to message() / message_device_grant(); exhausted => Ok
    pub messages: Vec<Ans<bool>>,
}

#[derive(Serialize, Deserialize, Clone, Copy, Debug, PartialEq)]
pub enum Entry {
    Authenticate,
    AcctMgmt,
    OpenSession,
}

#[derive(Serialize, Deserialize, Clone, Debug, PartialEq)]
pub struct Call {
    pub entry: Entry,
    pub use_first_pass: bool,
    pub ignore_unknown_user: bool,
    pub handler: Handler,
}

#[derive(Serialize, Deserialize, Clone, Debug, PartialEq)]
pub struct Scenario {
    /// simulated current time, unix seconds, and the UTC offset it is expressed in (minutes)
    pub now: i64,
    pub offset_min: i32,
    pub passwd: Vec<String>,
    pub shadow: Vec<String>,
    pub daemon: Option<Daemon>,
    pub calls: Vec<Call>,
}

/// The flat event list written to replay files.
#[derive(Serialize, Deserialize, Clone, Debug)]
#[serde(tag = "ev")]
pub enum Event {
    Clock { now: i64, offset_min: i32 },
    Passwd { line: String },
    Shadow { line: String },
    Daemon { connect_at: usize, close: Close },
    Packet { pkt: Pkt },
    Call { call: Call },
}

impl Scenario {
    pub fn to_events(&self) -> Vec<Event> {
        let mut ev = vec![Event::Clock { now: self.now, offset_min: self.offset_min }];
        for l in &self.passwd {
            ev.push(Event::Passwd { line: l.clone() });
        }
        for l in &self.shadow {
            ev.push(Event::Shadow { line: l.clone() });
        }
        if let Some(d) = &self.daemon {
            ev.push(Event::Daemon { connect_at: d.connect_at, close: d.close.clone() });
            for p in &d.packets {
                ev.push(Event::Packet { pkt: p.clone() });
            }
        }
        for c in &self.calls {
            ev.push(Event::Call { call: c.clone() });
        }
        ev
    }

    pub fn from_events(ev: &[Event]) -> Scenario {
        let mut s = Scenario {
            now: 0,
            offset_min: 0,
            passwd: vec![],
            shadow: vec![],
            daemon: None,
            calls: vec![],
        };
        for e in ev {
            match e {
                Event::Clock { now, offset_min } => {
                    s.now = *now;
                    s.offset_min = *offset_min;
                }
                Event::Passwd { line } => s.passwd.push(line.clone()),
                Event::Shadow { line } => s.shadow.push(line.clone()),
                Event::Daemon { connect_at, close } => {
                    s.daemon = Some(Daemon {
                        connect_at: *connect_at,
                        packets: vec![],
                        close: close.clone(),
                    })
                }
                Event::Packet { pkt } => {
                    if let Some(d) = s.daemon.as_mut() {
                        d.packets.push(pkt.clone());
                    }
                }
                Event::Call { call } => s.calls.push(call.clone()),
            }
        }
        s
    }

    pub fn canonical(&self) -> String {
        serde_json::to_string(self).expect("harness: scenario does not serialise")
    }
}

pub fn code_from_u8(c: u8) -> PamResultCode {
    use PamResultCode::*;
    match c {
        0 => PAM_SUCCESS, // never generated for an error answer; kept total for replay files
        1 => PAM_OPEN_ERR,
        2 => PAM_SYMBOL_ERR,
        3 => PAM_SERVICE_ERR,
        4 => PAM_SYSTEM_ERR,
        5 => PAM_BUF_ERR,
        6 => PAM_PERM_DENIED,
        7 => PAM_AUTH_ERR,
        8 => PAM_CRED_INSUFFICIENT,
        9 => PAM_AUTHINFO_UNAVAIL,
        10 => PAM_USER_UNKNOWN,
        11 => PAM_MAXTRIES,
        12 => PAM_NEW_AUTHTOK_REQD,
        13 => PAM_ACCT_EXPIRED,
        14 => PAM_SESSION_ERR,
        15 => PAM_CRED_UNAVAIL,
        16 => PAM_CRED_EXPIRED,
        17 => PAM_CRED_ERR,
        18 => PAM_NO_MODULE_DATA,
        19 => PAM_CONV_ERR,
        20 => PAM_AUTHTOK_ERR,
        21 => PAM_AUTHTOK_RECOVERY_ERR,
        22 => PAM_AUTHTOK_LOCK_BUSY,
        23 => PAM_AUTHTOK_DISABLE_AGING,
        24 => PAM_TRY_AGAIN,
        25 => PAM_IGNORE,
        26 => PAM_ABORT,
        27 => PAM_AUTHTOK_EXPIRED,
        28 => PAM_MODULE_UNKNOWN,
        29 => PAM_BAD_ITEM,
        30 => PAM_CONV_AGAIN,
        _ => PAM_INCOMPLETE,
    }
}
