//! Time seam. The daemon client measures its reply timeout with `std::time::Instant` and the
//! MFA polling loop calls `std::thread::sleep`. Neither may be wall clock in a simulation, and
//! neither can be edited (the kanidm tree is read-only). `std` reaches the kernel through the
//! libc symbols `clock_gettime`, `nanosleep` and `clock_nanosleep`; a definition of those symbols
//! in the executable itself takes precedence over the one in libc.so, so the test executable
//! defines them.
//!
//! While a simulated run is active ON THIS THREAD the monotonic clock is a per-thread counter that
//! advances by a fixed quantum on every observation and by the full requested duration on every
//! sleep (which returns at once). Outside a run (libtest, the worker's wall-clock cap) the calls
//! go straight to the kernel.

use std::cell::Cell;

/// Simulated time that passes per observation of the monotonic clock.
pub const STEP_NS: u64 = 50_000_000;

thread_local! {
    static ACTIVE: Cell<bool> = const { Cell::new(false) };
    static NOW_NS: Cell<u64> = const { Cell::new(0) };
    static OBSERVATIONS: Cell<u64> = const { Cell::new(0) };
    static SLEEPS: Cell<u64> = const { Cell::new(0) };
    static SLEPT_NS: Cell<u64> = const { Cell::new(0) };
}

fn active() -> bool {
    ACTIVE.try_with(|a| a.get()).unwrap_or(false)
}

pub struct ClockStats {
    pub elapsed_ns: u64,
    pub observations: u64,
    pub sleeps: u64,
    pub slept_ns: u64,
}

/// Start simulated time at 1 s (not 0, so that "zero" is never a valid reading).
pub fn begin() {
    NOW_NS.with(|c| c.set(1_000_000_000));
    OBSERVATIONS.with(|c| c.set(0));
    SLEEPS.with(|c| c.set(0));
    SLEPT_NS.with(|c| c.set(0));
    ACTIVE.with(|a| a.set(true));
}

pub fn pause() {
    ACTIVE.with(|a| a.set(false));
}

pub fn resume() {
    ACTIVE.with(|a| a.set(true));
}

pub fn end() -> ClockStats {
    ACTIVE.with(|a| a.set(false));
    ClockStats {
        elapsed_ns: NOW_NS.with(|c| c.get()) - 1_000_000_000,
        observations: OBSERVATIONS.with(|c| c.get()),
        sleeps: SLEEPS.with(|c| c.get()),
        slept_ns: SLEPT_NS.with(|c| c.get()),
    }
}

fn observe() -> u64 {
    OBSERVATIONS.with(|c| c.set(c.get() + 1));
    NOW_NS.with(|c| {
        let v = c.get().saturating_add(STEP_NS);
        c.set(v);
        v
    })
}

fn sleep_for(ns: u64) {
    SLEEPS.with(|c| c.set(c.get() + 1));
    SLEPT_NS.with(|c| c.set(c.get().saturating_add(ns)));
    NOW_NS.with(|c| c.set(c.get().saturating_add(ns)));
}

fn ts_to_ns(ts: &libc::timespec) -> u64 {
    (ts.tv_sec.max(0) as u64)
        .saturating_mul(1_000_000_000)
        .saturating_add(ts.tv_nsec.max(0) as u64)
}

/// # Safety
/// libc ABI.
#[no_mangle]
pub unsafe extern "C" fn clock_gettime(clk: libc::clockid_t, ts: *mut libc::timespec) -> libc::c_int {
    if active() && !ts.is_null() && (clk == libc::CLOCK_MONOTONIC || clk == libc::CLOCK_BOOTTIME) {
        let now = observe();
        (*ts).tv_sec = (now / 1_000_000_000) as libc::time_t;
        (*ts).tv_nsec = (now % 1_000_000_000) as libc::c_long;
        return 0;
    }
    libc::syscall(libc::SYS_clock_gettime, clk as libc::c_long, ts) as libc::c_int
}

/// # Safety
/// libc ABI.
#[no_mangle]
pub unsafe extern "C" fn nanosleep(req: *const libc::timespec, rem: *mut libc::timespec) -> libc::c_int {
    if active() && !req.is_null() {
        sleep_for(ts_to_ns(&*req));
        return 0;
    }
    libc::syscall(libc::SYS_nanosleep, req, rem) as libc::c_int
}

/// # Safety
/// libc ABI. Returns the error number (not -1/errno), like the libc function.
#[no_mangle]
pub unsafe extern "C" fn clock_nanosleep(
    clk: libc::clockid_t,
    flags: libc::c_int,
    req: *const libc::timespec,
    rem: *mut libc::timespec,
) -> libc::c_int {
    if active() && !req.is_null() {
        let want = ts_to_ns(&*req);
        if flags & libc::TIMER_ABSTIME != 0 {
            let now = NOW_NS.with(|c| c.get());
            sleep_for(want.saturating_sub(now));
        } else {
            sleep_for(want);
        }
        return 0;
    }
    let r = libc::syscall(libc::SYS_clock_nanosleep, clk as libc::c_long, flags as libc::c_long, req, rem);
    if r == -1 {
        *libc::__errno_location()
    } else {
        0
    }
}

/// Real monotonic seconds, for the worker's wall-clock cap and rate measurement only (never
/// inside a run, never influences a run).
pub fn real_monotonic_s() -> f64 {
    let mut ts = libc::timespec { tv_sec: 0, tv_nsec: 0 };
    unsafe {
        libc::syscall(libc::SYS_clock_gettime, libc::CLOCK_MONOTONIC as libc::c_long, &mut ts as *mut libc::timespec);
    }
    ts.tv_sec as f64 + ts.tv_nsec as f64 / 1e9
}

/// Proves the seam is effective in this executable: a one-hour sleep and a 1000-observation
/// loop must take (almost) no real time and must advance simulated time exactly.
pub fn self_test() -> Result<(), String> {
    let real0 = real_monotonic_s();
    begin();
    let a = std::time::Instant::now();
    std::thread::sleep(std::time::Duration::from_secs(3600));
    let b = std::time::Instant::now();
    let st = end();
    let real1 = real_monotonic_s();
    let d = b.duration_since(a);
    if st.sleeps != 1 || st.slept_ns != 3600 * 1_000_000_000 {
        return Err(format!("sleep seam not effective: sleeps={} slept_ns={}", st.sleeps, st.slept_ns));
    }
    if d != std::time::Duration::from_nanos(3600 * 1_000_000_000 + STEP_NS) {
        return Err(format!("clock seam not effective: Instant delta {d:?}"));
    }
    if st.observations != 2 {
        return Err(format!("clock seam: expected 2 observations, saw {}", st.observations));
    }
    if real1 - real0 > 1.0 {
        return Err(format!("seam self test took {:.3}s real time", real1 - real0));
    }
    // and outside a run the real clock is visible again
    let x = std::time::Instant::now();
    let y = std::time::Instant::now();
    if y.duration_since(x) >= std::time::Duration::from_nanos(STEP_NS) {
        return Err("real clock not restored outside a run".into());
    }
    Ok(())
}
