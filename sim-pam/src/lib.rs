// GENERATED from templates/lib.rs.in by build.sh (KANIDM_SRC=/repo). Do not edit.
//
// Shadow build of kanidm's `pam_sparkle_common` crate in TEST cfg: the real modules are
// compiled from the kanidm working tree by path, nothing is copied. This mirrors
// /repo/unix_integration/pam_sparkle_common/src/lib.rs (minus `#![deny(warnings)]`
// and the crate's own `mod tests`), and adds the C43 simulation as an in-crate module so
// that it can reach `pub(crate) mod core` and the cfg(test)-only `RequestOptions::Test`.
#![warn(unused_extern_crates)]
#![deny(clippy::todo)]
#![deny(clippy::unimplemented)]

#[cfg(target_family = "unix")]
#[path = "/repo/unix_integration/pam_sparkle_common/src/pam/mod.rs"]
pub mod pam;

#[cfg(target_family = "unix")]
pub use pam::{module::PamHooks, PamSparkle};

#[path = "/repo/unix_integration/pam_sparkle_common/src/core.rs"]
pub(crate) mod core;

// pub use needs to be here so it'll compile and export all the things
#[cfg(target_family = "unix")]
pub use crate::pam::*;

#[cfg(test)]
#[path = "/verif/sim-pam/src/sim/mod.rs"]
mod sim;
