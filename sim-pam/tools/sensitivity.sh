#!/bin/bash
# Sensitivity proof for C43: on a scratch copy of the kanidm tree under /dev/shm, make one
# property-breaking edit at a time, build the check against the copy (KANIDM_SRC), run the
# quick tier and confirm it reports the edit with a replay file that reproduces.
# Nothing under /repo or /verif/evidence, /verif/replays is touched; the scratch is removed.
#
#   tools/sensitivity.sh [mutant ...]      (default: all)
set -u
export CARGO_NET_OFFLINE=true RUSTUP_TOOLCHAIN=1.96.0
S="/dev/shm/c43-sens-$$"
trap 'rm -rf "$S"' EXIT
mkdir -p "$S/out"
echo "copying /repo (without target/.git) to $S/repo ..."
mkdir -p "$S/repo"
( cd /repo && tar --exclude=./target --exclude=./.git -cf - . ) | ( cd "$S/repo" && tar -xf - )

export KANIDM_SRC="$S/repo" C43_WS="$S/ws"
export C43_EVIDENCE_DIR="$S/out/evidence" C43_REPLAY_DIR="$S/out/replays"
export C43_N="${C43_N:-80000}"
CORE=unix_integration/pam_sparkle_common/src/core.rs
PASSWD=unix_integration/common/src/unix_passwd.rs

restore() { cp "/repo/$CORE" "$S/repo/$CORE"; cp "/repo/$PASSWD" "$S/repo/$PASSWD"; }

edit() { # file, python expression transforming s
  python3 - "$S/repo/$1" "$2" <<'PY'
import sys
path, expr = sys.argv[1], sys.argv[2]
s = open(path).read()
t = eval(expr, {"s": s})
if t == s:
    sys.exit("edit did not apply to " + path)
open(path, "w").write(t)
PY
}

apply_mutant() {
  case "$1" in
    unexpected-reply-is-success)
      # sm_authenticate_connected: the catch-all arm for replies of the wrong kind says yes
      edit $CORE 's.replace("""                debug!("PamResultCode::PAM_AUTH_ERR");
                return PamResultCode::PAM_AUTH_ERR;""", """                debug!("PamResultCode::PAM_AUTH_ERR");
                return PamResultCode::PAM_SUCCESS;""", 1)' ;;
    socket-error-is-success)
      # sm_authenticate_connected: a failed exchange with the daemon is treated as success
      edit $CORE 's.replace("""                error!(?err, "PAM_AUTH_ERR");
                return PamResultCode::PAM_AUTH_ERR;""", """                error!(?err, "PAM_AUTH_ERR");
                return PamResultCode::PAM_SUCCESS;""", 1)' ;;
    daemon-error-reply-is-success)
      edit $CORE 's.replace("""                error!("Error from kanidm-unixd: {}", err);
                return PamResultCode::PAM_AUTH_ERR;""", """                error!("Error from kanidm-unixd: {}", err);
                return PamResultCode::PAM_SUCCESS;""", 1)' ;;
    unknown-ignored-is-success)
      # ignore_unknown_user: PAM_IGNORE confused with PAM_SUCCESS (connected path)
      edit $CORE 's.replace("""                if opts.ignore_unknown_user {
                    return PamResultCode::PAM_IGNORE;""", """                if opts.ignore_unknown_user {
                    return PamResultCode::PAM_SUCCESS;""", 1)' ;;
    locked-hash-accepted)
      # CryptPw::from_str: a leading '!' (locked account) is stripped before the scheme test
      edit $PASSWD 's.replace("""    fn from_str(value: &str) -> Result<Self, Self::Err> {
        if value.starts_with""", """    fn from_str(value: &str) -> Result<Self, Self::Err> {
        let value = value.trim_start_matches(\x27!\x27);
        if value.starts_with""", 1)' ;;
    expiry-ignored)
      # sm_authenticate_fallback: the account expiry check never fires
      edit $CORE 's.replace("""    if let Some(expire) = expiration_date {
        if current_time >= expire {
            debug!("PamResultCode::PAM_ACCT_EXPIRED");
            return PamResultCode::PAM_ACCT_EXPIRED;
        }
    };

    // All checks passed! We can now proceed to authenticate the account.""", """    let _ = expiration_date;

    // All checks passed! We can now proceed to authenticate the account.""", 1)' ;;
    expiry-off-by-one)
      # sm_authenticate_fallback: ">=" became ">" (still valid at midnight of the expiry day)
      edit $CORE 's.replace("""        if current_time >= expire {
            debug!("PamResultCode::PAM_ACCT_EXPIRED");
            return PamResultCode::PAM_ACCT_EXPIRED;
        }
    };

    // All checks passed! We can now proceed""", """        if current_time > expire {
            debug!("PamResultCode::PAM_ACCT_EXPIRED");
            return PamResultCode::PAM_ACCT_EXPIRED;
        }
    };

    // All checks passed! We can now proceed""", 1)' ;;
    wrong-password-accepted-for-unsupported)
      # CryptPw::check_pw: an unrecognised scheme verifies anything
      edit $PASSWD 's.replace("            CryptPw::Invalid => false,", "            CryptPw::Invalid => true,", 1)' ;;
    fallback-when-daemon-errors)
      # sm_authenticate: the daemon is reachable but the module consults shadow anyway
      edit $CORE 's.replace("""        Source::Daemon(daemon_client) => {
            sm_authenticate_connected(pamh, opts, current_time, &daemon_client)
        }
        Source::Fallback { users, shadow } => {
            sm_authenticate_fallback(pamh, opts, current_time, users, shadow)""", """        Source::Daemon(daemon_client) => {
            match sm_authenticate_connected(pamh, opts, current_time, &daemon_client) {
                PamResultCode::PAM_AUTH_ERR => PamResultCode::PAM_SUCCESS,
                other => other,
            }
        }
        Source::Fallback { users, shadow } => {
            sm_authenticate_fallback(pamh, opts, current_time, users, shadow)""", 1)' ;;
    *) echo "unknown mutant $1"; return 1 ;;
  esac
}

ALL="unexpected-reply-is-success socket-error-is-success daemon-error-reply-is-success unknown-ignored-is-success locked-hash-accepted expiry-ignored expiry-off-by-one wrong-password-accepted-for-unsupported fallback-when-daemon-errors"
MUTANTS="${*:-$ALL}"
caught=0; missed=0
for m in $MUTANTS; do
  restore
  apply_mutant "$m" || { echo "MUTANT $m: could not apply"; missed=$((missed+1)); continue; }
  rm -rf "$S/out/replays"
  out="$(/verif/sim-ext/C43.sh quick 2>&1)"; rc=$?
  line="$(echo "$out" | grep '^VIOLATION ' | head -1)"
  if [ $rc -eq 1 ] && [ -n "$line" ]; then
    f="${line##*replay=}"
    /verif/sim-ext/C43.sh replay "$f" > "$S/out/replay.txt" 2>&1; rrc=$?
    sig="$(python3 -c "import json,sys;d=json.load(open(sys.argv[1]));print(d['oracle'],'|',d['signature'],'| events',d['minimised']['events_before'],'->',d['minimised']['events_after'])" "$f")"
    if [ $rrc -eq 1 ]; then
      echo "MUTANT $m: CAUGHT ($sig); replay reproduces"
      caught=$((caught+1))
    else
      echo "MUTANT $m: reported but replay exit $rrc"; missed=$((missed+1))
    fi
  else
    echo "MUTANT $m: NOT caught (exit $rc)"; echo "$out" | tail -5
    missed=$((missed+1))
  fi
done
# and the unchanged copy must be clean
restore
out="$(/verif/sim-ext/C43.sh quick 2>&1)"; rc=$?
echo "UNCHANGED copy: exit $rc: $(echo "$out" | tail -1)"
echo "sensitivity: caught=$caught missed=$missed"
[ $missed -eq 0 ] && [ $rc -eq 0 ]
