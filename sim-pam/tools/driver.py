#!/usr/bin/env python3
"""Driver of the C43 check (called by /verif/sim-ext/C43.sh).

  driver.py quick | thorough | replay <file> | selfcheck [n]

Exit codes: 0 property held on everything explored, 1 violation (after exactly one
`VIOLATION property=C43 replay=<path>` line), 2 harness error (`HARNESS-ERROR ...`).
"""
import json
import os
import shutil
import subprocess
import sys
import time

PROP = "C43"
V = "/verif"
SIM = os.path.join(V, "sim-pam")
SEED = int(os.environ.get("VERIF_SEED", "1"))
WORKERS = int(os.environ.get("C43_WORKERS", str(os.cpu_count() or 4)))
SCRATCH = os.environ["C43_SCRATCH"]  # created and removed by C43.sh
# Overridden only by tools/sensitivity.sh, so that runs against a mutated scratch copy of kanidm
# never touch the real evidence / replay files.
EVIDENCE_DIR = os.environ.get("C43_EVIDENCE_DIR", os.path.join(V, "evidence"))
REPLAY_DIR = os.environ.get("C43_REPLAY_DIR", os.path.join(V, "replays", PROP))
TEST_ARGS = ["--exact", "sim::c43_entry", "--nocapture", "--test-threads=1"]

QUICK_N = int(os.environ.get("C43_N", "500000"))
THOROUGH_N = int(os.environ.get("C43_N", "12000000"))
THOROUGH_WALL_CAP_S = float(os.environ.get("C43_WALL_CAP_S", "840"))

ASSUMPTIONS = [
    "A resolver daemon that stays connected but never answers is NOT injected: the client would wait in a kernel receive timeout (SO_RCVTIMEO), which is real time. Every script ends with the daemon having finished sending (end-of-stream, or the daemon end closed).",
    "Time seam: the test executable defines clock_gettime / nanosleep / clock_nanosleep, so the client's reply timeout (std::time::Instant) and the MFA polling sleep (std::thread::sleep) run on a simulated monotonic clock that advances 50 ms per observation and by the full duration per sleep; kanidm sources are untouched. PAM 'current time' is the OffsetDateTime parameter of core::sm_authenticate.",
    "Transport: an AF_UNIX SOCK_SEQPACKET socketpair instead of the daemon's SOCK_STREAM listener, with the whole reply script queued before the module runs, so that the harness decides which bytes each read() returns (one segment per read, frames may be split, truncated or coalesced). Reconnecting to a socketpair peer is impossible, so every reconnect attempt of the client fails.",
    "The module is entered through pam_sparkle_common::core::{sm_authenticate, acct_mgmt, sm_open_session} with RequestOptions::Test (cfg(test) shadow build of the real sources by path); the extern \"C\" entry points, argument parsing (ModuleOptions::try_from), libpam's PamHandle and the reading of /etc/passwd, /etc/shadow and the config file are not run. Unreadable databases are mapped to empty ones exactly as RequestOptions::Main does (unwrap_or_default).",
    "The application side (PamHandler) never reports a failure with code PAM_SUCCESS (the real PamHandle cannot either).",
    "Supported-hash fixtures ((cleartext, hash) pairs for $6$, $5$ incl. rounds=, and $y$) were computed by the system libcrypt (perl crypt()), independently of the sha-crypt / yescrypt crates; 'the entered password is the hash's cleartext' is decided from that table. A shadow password field that is not byte-for-byte a fixture hash is treated as verifying nothing.",
    "'Account has expired' = field 8 of the shadow line (days since the epoch, > 0) multiplied by 86400 is <= the current unix time. A value of 0 or an unparsable value is exempt from any demand. Password ageing (last change + max + inactive) is not part of the property; it is only counted as a probe.",
    "Duplicate user names in passwd/shadow are not generated. module option debug is always false (it only adds output).",
    "Sampled, not exhaustive: a clean batch is evidence, not proof.",
]

COMPONENTS = {
    "real": [
        "pam_sparkle_common::core (sm_authenticate, sm_authenticate_connected, sm_authenticate_fallback, acct_mgmt, sm_open_session, RequestOptions::connect_to_daemon incl. the thread-local connection cache)",
        "pam_sparkle_common::pam (ModuleOptions, PamResultCode)",
        "sparkle_unix_common::client_sync::DaemonClientBlocking (request write, read loop, timeout, reconnect flag)",
        "sparkle_unix_common::json_codec::JsonCodec (both directions) and unix_proto (ClientRequest/ClientResponse/PamAuthRequest/PamAuthResponse, serde_json)",
        "sparkle_unix_common::unix_passwd (parse_etc_passwd, parse_etc_shadow, EtcShadow, CryptPw::from_str/check_pw) with sha-crypt 0.5.0 and yescrypt 0.1.0-rc.5",
        "Linux AF_UNIX socket semantics (socketpair, EOF, EPIPE/ECONNRESET after close)",
    ],
    "stub": [
        "resolver daemon: scripted reply sequence (real ClientResponse values, real codec), pre-queued; disconnect points",
        "PAM application / conversation (PamHandler): scripted answers, records every prompt and message",
        "monotonic clock and sleeping (interposed libc symbols, simulated)",
        "current time (OffsetDateTime parameter)",
        "/etc/passwd and /etc/shadow: generated text, parsed by the real parsers",
    ],
    "not_run": [
        "extern \"C\" pam_sm_* entry points and the pam_hooks! macro, ModuleOptions::try_from(argv)",
        "libpam (pam_get_user, pam_get_item, conversation function)",
        "PamNssConfig / config file, DaemonClientBlocking::new (connect to a socket path)",
        "the real resolver daemon (kanidm_unixd) and its task daemon",
        "sm_setcred, sm_close_session, sm_chauthtok (constant results)",
    ],
}

RULE = (
    "A case is one PAM session script generated from one integer (VERIF_SEED*2^32+i): simulated clock; "
    "generated passwd/shadow text (supported $6$/$5$/$y$ fixture hashes, locked !/*/!!/!hash fields, empty, "
    "unsupported schemes, mangled supported-prefix hashes, account expiry days placed around the clock, ageing "
    "fields, malformed lines); optionally a resolver-daemon reply script (plausible auth conversations or "
    "free-form reply sequences, with wrong-kind replies such as PamStatus(true)/Ok, Error replies, frames split "
    "across reads, truncated frames, garbage bytes, coalesced extra frames, lost replies, cut scripts) plus a "
    "disconnect mode (end of script / before the first request / during the n-th conversation callback) and "
    "the call index at which the daemon becomes reachable; and 1-4 module calls (sm_authenticate, acct_mgmt, "
    "sm_open_session) each with use_first_pass / ignore_unknown_user and a scripted application side (user "
    "name known/unknown/error, stacked authtok right/wrong/absent/error, password/PIN/MFA-code answers, "
    "message failures). Non-trivial = the module got as far as a decision: it sent at least one request to a "
    "reachable daemon, or (daemon unreachable) sm_authenticate obtained a user name and consulted the local "
    "databases. distinct_nontrivial = number of distinct canonical scripts (64-bit digest of the full JSON "
    "script) among non-trivial runs, merged over all workers; distinct_schedules_or_states = number of "
    "distinct categorical run shapes (per call: entry, options, reachability, the sequence of (reply consumed, "
    "delivery fault) pairs or (user presence, hash class/scheme, password right/wrong/none, expiry class), "
    "application-side call sequence, result code)."
)


def harness_error(msg):
    print(f"HARNESS-ERROR {msg}")
    sys.exit(2)


def build():
    env = dict(os.environ)
    p = subprocess.run([os.path.join(SIM, "build.sh")], capture_output=True, text=True, env=env)
    if p.returncode != 0:
        sys.stderr.write(p.stderr[-6000:])
        harness_error("build of /verif/sim-pam failed")
    exe = p.stdout.strip().splitlines()[-1] if p.stdout.strip() else ""
    if not exe or not os.access(exe, os.X_OK):
        harness_error("build.sh did not report a test executable")
    return exe


def run_mode(exe, mode, out_dir, extra=None, capture=True):
    env = dict(os.environ)
    env.update({"C43_MODE": mode, "C43_OUT": out_dir})
    if extra:
        env.update({k: str(v) for k, v in extra.items()})
    os.makedirs(out_dir, exist_ok=True)
    if capture:
        with open(os.path.join(out_dir, f"{mode}.log"), "ab") as log:
            return subprocess.run([exe] + TEST_ARGS, env=env, stdout=log, stderr=log).returncode
    return subprocess.run([exe] + TEST_ARGS, env=env).returncode


def run_batch(exe, out_dir, n, workers, tier, digests=False, wall_cap=None):
    os.makedirs(out_dir, exist_ok=True)
    procs = []
    t0 = time.monotonic()
    for w in range(workers):
        env = dict(os.environ)
        env.update({
            "C43_MODE": "batch", "C43_OUT": out_dir, "C43_SEED": str(SEED), "C43_N": str(n),
            "C43_WORKERS": str(workers), "C43_WORKER": str(w), "C43_TIER": tier,
        })
        if digests:
            env["C43_DIGESTS"] = "1"
        if wall_cap is not None:
            env["C43_WALL_CAP_S"] = str(wall_cap)
        log = open(os.path.join(out_dir, f"w{w}.log"), "wb")
        procs.append((w, subprocess.Popen([exe] + TEST_ARGS, env=env, stdout=log, stderr=log), log))
    failed = []
    for w, p, log in procs:
        rc = p.wait()
        log.close()
        if rc != 0:
            failed.append((w, rc))
    wall = time.monotonic() - t0
    if failed:
        w, rc = failed[0]
        try:
            tail = open(os.path.join(out_dir, f"w{w}.log"), "r", errors="replace").read()[-3000:]
            sys.stderr.write(tail)
        except OSError:
            pass
        harness_error(f"worker {w} exited with {rc}")
    summaries = []
    for w in range(workers):
        with open(os.path.join(out_dir, f"w{w}.json")) as f:
            summaries.append(json.load(f))
    return summaries, wall


def add_maps(dst, src):
    for k, v in src.items():
        dst[k] = dst.get(k, 0) + v


def aggregate(summaries):
    agg = {"runs": 0, "nontrivial": 0, "calls": 0, "auth_calls": 0, "faults": {}, "probes": {}, "results": {},
           "panics": {}, "sim_time_ns": 0, "clock_observations": 0}
    violations, samples, violation_count, stopped = [], [], 0, []
    for s in summaries:
        c = s["coverage"]
        for k in ("runs", "nontrivial", "calls", "auth_calls", "sim_time_ns", "clock_observations"):
            agg[k] += c[k]
        for k in ("faults", "probes", "results", "panics"):
            add_maps(agg[k], c[k])
        violations.extend(s["violations"])
        violation_count += s["violation_count"]
        samples.extend(s["samples"])
        if s.get("stopped_early_at") is not None:
            stopped.append(s["stopped_early_at"])
    violations.sort(key=lambda v: v["i"])
    samples.sort(key=lambda v: v["i"])
    return agg, violations, violation_count, samples, stopped


def known_findings():
    try:
        with open(os.path.join(V, "KNOWN_FINDINGS.json")) as f:
            return [x for x in json.load(f).get("findings", []) if x.get("status") == "known" and x.get("property") == PROP]
    except (OSError, ValueError):
        return []


def make_replay(exe, viol, cfg, tag):
    """Minimise a violating script, write the replay file, confirm it in a fresh process."""
    work = os.path.join(SCRATCH, f"min-{tag}")
    os.makedirs(work, exist_ok=True)
    cand = os.path.join(work, "candidate.json")
    with open(cand, "w") as f:
        json.dump({"property": PROP, "oracle": viol["oracle"], "signature": viol["signature"], "seed": viol["seed"],
                   "run_index": viol["i"], "verif_seed": SEED, "cfg": cfg, "events": viol["events"],
                   "violation": {"step": viol["step"], "summary": viol["summary"]}}, f)
    rdir = REPLAY_DIR
    os.makedirs(rdir, exist_ok=True)
    dest = os.path.join(rdir, f"{viol['seed']}-{viol['oracle']}.json")
    rc = run_mode(exe, "minimise", work, {"C43_REPLAY": cand, "C43_MIN_OUT": dest})
    if rc != 0 or not os.path.exists(dest):
        sys.stderr.write(open(os.path.join(work, "minimise.log"), errors="replace").read()[-3000:])
        harness_error(f"minimiser failed on run {viol['i']} (a violation found in the batch did not reproduce in a fresh process)")
    rc = run_mode(exe, "replay", work, {"C43_REPLAY": dest})
    try:
        res = json.load(open(os.path.join(work, "replay.json")))
    except (OSError, ValueError):
        res = None
    if rc != 0 or not res or not res.get("violation") or not res.get("same_as_recorded"):
        harness_error(f"replay file {dest} does not reproduce in a fresh process")
    return dest


def validate_evidence(path):
    schema = "/root/.vp/EVIDENCE.schema.json"
    py = shutil.which("python3-vt")
    if not py or not os.path.exists(schema):
        return
    code = ("import json,jsonschema,sys; jsonschema.validate(json.load(open(sys.argv[1])), json.load(open(sys.argv[2])))")
    p = subprocess.run([py, "-c", code, path, schema], capture_output=True, text=True)
    if p.returncode != 0:
        sys.stderr.write(p.stderr[-2000:])
        harness_error("evidence file does not validate against the schema")


def check(tier):
    t_start = time.monotonic()
    exe = build()
    out = os.path.join(SCRATCH, "batch")
    n = QUICK_N if tier == "quick" else THOROUGH_N
    cap = None if tier == "quick" else THOROUGH_WALL_CAP_S
    summaries, wall = run_batch(exe, out, n, WORKERS, tier, wall_cap=cap)
    if run_mode(exe, "merge", out) != 0:
        harness_error("merge step failed")
    merged = json.load(open(os.path.join(out, "merge.json")))
    agg, violations, violation_count, samples, stopped = aggregate(summaries)
    cfg = summaries[0]["cfg"]

    # ---- violations ---------------------------------------------------------------------
    known = known_findings()
    groups = {}
    for v in violations:
        groups.setdefault((v["oracle"], v["signature"]), v)
    known_hit, new = [], []
    for (oracle, sig), v in sorted(groups.items(), key=lambda kv: kv[1]["i"]):
        k = next((x for x in known if x.get("oracle") == oracle and x.get("signature") == sig), None)
        if k:
            known_hit.append({"oracle": oracle, "signature": sig, "what": k.get("what", ""), "first_run": v["i"]})
            print(f"KNOWN-FINDING: property={PROP} {k.get('what', '')}")
        else:
            new.append(v)
    replay_path = None
    if new:
        replay_path = make_replay(exe, new[0], cfg, "new")

    # ---- evidence -----------------------------------------------------------------------
    fault_kinds = summaries[0]["fault_kinds"]
    probe_kinds = summaries[0]["probe_kinds"]
    evidence = {
        "property_id": PROP, "tier": tier, "seed": SEED, "level": "exploration",
        "wall_s": round(time.monotonic() - t_start, 3), "violations": violation_count,
        "assumptions": ASSUMPTIONS,
        "coverage": {
            "evaluations": agg["runs"],
            "distinct_nontrivial": merged["distinct_scripts"],
            "rule": RULE,
            "samples": samples[:3],
            "exhaustive": False,
            "simulated_runs": agg["runs"],
            "nontrivial_runs": agg["nontrivial"],
            "module_calls": agg["calls"],
            "sm_authenticate_calls": agg["auth_calls"],
            "runs_per_hour": int(agg["runs"] / wall * 3600) if wall > 0 else 0,
            "batch_wall_s": round(wall, 3),
            "workers": WORKERS,
            "planned_runs": n,
            "stopped_early_by_wall_cap": bool(stopped),
            "simulated_time_covered_s": round(agg["sim_time_ns"] / 1e9, 3),
            "simulated_clock_observations": agg["clock_observations"],
            "faults_fired": agg["faults"],
            "faults_at_zero": [k for k in fault_kinds if agg["faults"].get(k, 0) == 0],
            "probes": agg["probes"],
            "probes_at_zero": [k for k in probe_kinds if agg["probes"].get(k, 0) == 0],
            "panics_observed": agg["panics"],
            "result_codes": agg["results"],
            "distinct_schedules_or_states": merged["distinct_shapes"],
            "distinct_violation_signatures": [f"{o}: {s}" for (o, s) in sorted(groups)],
            "known_findings_hit": known_hit,
            "components": COMPONENTS,
            "cfg": cfg,
        },
    }
    os.makedirs(EVIDENCE_DIR, exist_ok=True)
    epath = os.path.join(EVIDENCE_DIR, f"{PROP}.json")
    with open(epath, "w") as f:
        json.dump(evidence, f, indent=1, sort_keys=True)
    validate_evidence(epath)

    rate = agg["runs"] / wall if wall > 0 else 0
    print(f"{PROP} {tier}: {agg['runs']} scripts ({merged['distinct_scripts']} distinct non-trivial, "
          f"{merged['distinct_shapes']} shapes, {agg['auth_calls']} sm_authenticate calls) in {wall:.1f}s "
          f"({rate:.0f}/s, {WORKERS} workers), violating runs={violation_count}, "
          f"known findings hit={len(known_hit)}, seed={SEED}")
    if replay_path:
        v = new[0]
        print(f"  first new violation: run {v['i']} oracle={v['oracle']} signature={v['signature']}")
        print(f"  {v['summary']}")
        print(f"VIOLATION property={PROP} replay={replay_path}")
        sys.exit(1)
    sys.exit(0)


def replay(path):
    if not os.path.exists(path):
        harness_error(f"no such replay file: {path}")
    exe = build()
    work = os.path.join(SCRATCH, "replay")
    rc = run_mode(exe, "replay", work, {"C43_REPLAY": os.path.abspath(path)}, capture=False)
    try:
        res = json.load(open(os.path.join(work, "replay.json")))
    except (OSError, ValueError):
        res = None
    if rc != 0 or res is None:
        harness_error("replay process failed")
    if res.get("violation"):
        recorded = json.load(open(path))
        if res.get("oracle") == recorded.get("oracle"):
            if not res.get("same_as_recorded"):
                print(f"note: same oracle, signature now {res.get('signature')!r}")
            sys.exit(1)
        print(f"note: a different oracle fired ({res.get('oracle')}); the recorded violation did not reproduce")
    sys.exit(0)


def selfcheck(n):
    exe = build()
    work = os.path.join(SCRATCH, "selfcheck")
    rc = run_mode(exe, "selftest", work)
    try:
        st = json.load(open(os.path.join(work, "selftest.json")))
    except (OSError, ValueError):
        st = None
    if rc != 0 or not st or not st.get("ok"):
        if st:
            for p in st.get("problems", []):
                print(f"  selftest: {p}")
        harness_error("harness self test failed (time seam / fixture table / wire model)")
    print(f"selftest ok: time seam effective, {st['fixtures_checked']} libcrypt fixtures accepted by kanidm's verifier, wire model ok")

    layouts = [("A", 1), ("B", 1), ("C", 5), ("D", WORKERS)]
    digests, covs = {}, {}
    for name, workers in layouts:
        d = os.path.join(work, f"det-{name}")
        summaries, _ = run_batch(exe, d, n, workers, "quick", digests=True)
        m = {}
        for w in range(workers):
            for line in open(os.path.join(d, f"w{w}.digests")):
                i, h = line.split()
                m[int(i)] = h
        digests[name] = m
        agg, _, vc, _, _ = aggregate(summaries)
        covs[name] = json.dumps([agg, vc], sort_keys=True)
    ref = digests["A"]
    if len(ref) != n:
        harness_error(f"determinism: expected {n} digests, got {len(ref)}")
    for name, _ in layouts[1:]:
        diff = [i for i in range(n) if digests[name].get(i) != ref[i]]
        if diff:
            harness_error(f"determinism: layout {name} differs from A on {len(diff)} runs, first i={diff[0]}")
        if covs[name] != covs["A"]:
            harness_error(f"determinism: aggregated coverage of layout {name} differs from A")
    print(f"determinism ok: {n} runs x 4 executions (separate processes; 1, 1, 5 and {WORKERS} workers): "
          f"all per-run trace digests and aggregated counters identical")
    sys.exit(0)


def main():
    if len(sys.argv) < 2:
        harness_error("usage: C43.sh quick | thorough | replay <file> | selfcheck [n]")
    cmd = sys.argv[1]
    if cmd in ("quick", "thorough"):
        check(cmd)
    elif cmd == "replay":
        if len(sys.argv) < 3:
            harness_error("usage: C43.sh replay <file>")
        replay(sys.argv[2])
    elif cmd == "selfcheck":
        selfcheck(int(sys.argv[2]) if len(sys.argv) > 2 else 2048)
    else:
        harness_error(f"unknown command {cmd}")


if __name__ == "__main__":
    main()
